#!/bin/sh
# Build the verification environment offline: an overlay venv on top of /venv
# (which holds prettyprinter's own dependencies) plus crosshair-tool (+ z3) from
# the local wheelhouse.  Idempotent; also run lazily by ./check.
set -e
cd "$(dirname "$0")"
VENV=.venv
if [ -x "$VENV/bin/python" ] && "$VENV/bin/python" -c "import crosshair, z3" 2>/dev/null; then
    exit 0
fi
rm -rf "$VENV"
/venv/bin/python -m venv "$VENV"
SP=$("$VENV/bin/python" -c "import sysconfig; print(sysconfig.get_paths()['purelib'])")
printf "import site; site.addsitedir('/venv/lib/python3.12/site-packages')\n" > "$SP/_overlay.pth"
PIP_NO_INDEX=1 "$VENV/bin/python" -m pip install --quiet --no-index \
    --find-links /opt/veriftools/wheels crosshair-tool
"$VENV/bin/python" -c "import crosshair, z3, prettyprinter; print('verif env ok: z3', z3.get_version_string())"
