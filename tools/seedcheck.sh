#!/bin/sh
# tools/seedcheck.sh <seeded dir> <check id> [tier] : apply seeded/<..>/patch.diff to /repo,
# run the demo and the check, restore /repo.  Prints a one-line summary.
D="$1"; P="$2"; T="${3:-quick}"
cd /repo || exit 9
git diff --quiet || { echo "/repo dirty"; exit 9; }
git apply "$D/patch.diff" || { echo "patch does not apply: $D"; exit 9; }
PYTHONPATH=/repo /venv/bin/python "$D/demo.py" >/tmp/seed_demo.out 2>&1; demo=$?
cd /verif
./check "$P" --tier "$T" > /tmp/seed_check_$P.out 2>&1; rc=$?
git -C /repo checkout -- .
nv=$(grep -a -c '^VIOLATION' /tmp/seed_check_$P.out)
echo "$D check=$P tier=$T demo_exit=$demo check_exit=$rc violations=$nv $(grep -a "^$P $T" /tmp/seed_check_$P.out | cut -c1-160)"
