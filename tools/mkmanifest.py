#!/usr/bin/env python3
"""Regenerate /verif/MANIFEST.json from the table below (keeps it valid and
consistent with the property modules that exist)."""
import json
import os

HERE = os.path.dirname(os.path.dirname(os.path.abspath(__file__)))

TECH = 'bounded symbolic execution of the real Python code (CrossHair 0.0.110 + z3 5.1), path-exhaustive per case; counterexamples replayed natively'

CLAIMS = {
    'C01': dict(
        text='For each enumerated value skeleton the real pipeline (python_to_sdocs, layout_smart, the string evaluator and splitter) is executed symbolically with page width / ribbon width (and, in the atom family, every leaf width) as z3 variables; on every path the emitted text is evaluated and compared with a strict structural equality, so one concrete eval stands for the whole region of configurations sharing the path. CONFIRMED cases hold for every configuration inside the stated slices; INCOMPLETE cases are reported, not claimed.',
        note='Trusted: CrossHair models of built-ins, z3, lemma L1 for the ribbon float (checked under C05), CPython eval/ast for the oracle. Shapes/leaf contents are enumerated, not symbolic; 2-D (width x ribbon) interior only for small values.',
        ref='4 C01'),
    'C02': dict(
        text='str_to_lines is executed with a symbolic max_len (1..200) on enumerated adversarial strings (pieces re-join, none empty, bounded number of escaped_len calls = unwinding assertion for termination); the in-context family runs pformat-level layout with symbolic width/ribbon and checks the STRING tokens of the output; the escape kernel is run on symbolic ASCII content of length <= 2.',
        note='String content is enumerated except in the escape-kernel family (ASCII, length <= 2, repr modelled by a validated pure-Python stub). Trusted: CrossHair, z3, tokenize/ast.literal_eval.',
        ref='4 C02'),
    'C03': dict(
        text='For each value the reference syntax tree is taken at unbounded width; the real pipeline is then executed with symbolic width/ribbon (slices) and on every path the output must parse to the same tree and every SLine indent must be a multiple of the indent setting (solver-checked with symbolic indent on atom skeletons).',
        note='Values are an enumerated corpus; indent is symbolic only for atom skeletons. Trusted: CrossHair, z3, L1, CPython ast.',
        ref='4 C03'),
    'C04': dict(
        text='layout_smart / layout_fast and the real combinators are executed symbolically on each enumerated document shape with every text length, every nest offset, page width, ribbon width and the strategy as solver variables; the emitted SDoc stream is matched against an independent reference denotation (membership in the layout set, indents = sum of offsets, forced breaks, annotation nesting, annotation-free twin); the renderer is checked with symbolic content.',
        note='Shapes are enumerated (curated idioms, all shapes up to a size bound, seeded random larger ones). Trusted: CrossHair, z3, L1, vf/refsem.py (weakest reading of the statement).',
        ref='3, 4 C04'),
    'C05': dict(
        text='Same symbolic execution as C04 on the classic algebra; for every group the matcher labels flat, z3 must prove end-of-line column <= page width and <= group indent + ribbon width on every path. Also discharges lemma L1 (the float ribbon computation equals min(rw, w)) from the current source with cvc5 and z3.',
        note='Shapes enumerated; text lengths 1..30, widths 1..200 symbolic. L1 is a bit-precise QF_BVFP query over 1 <= rw, w <= 200.',
        ref='3, 4 C04-C06, 2.3'),
    'C06': dict(
        text='Same symbolic execution on the classic algebra; every group labelled broken that contains no forced break must have one of the excuses of the statement, recomputed independently of layout.py and proved by z3 on every path; the pformat-level half proves, for value skeletons with symbolic atom widths, that width >= L and ribbon >= L yields the one-line form.',
        note='Lookahead through align/hang under the smart strategy is not modelled (excuse granted). Trusted: CrossHair, z3, L1, vf/refsem.py.',
        ref='3, 4 C04-C06'),
    'C07': dict(
        text='Date/time printers are executed on records whose fields are solver variables over their full documented ranges (timedelta over CrossHair\'s symbolic timedelta) and the recorded constructor arguments are proved equal to the fields; all other bundled printers run on generated boundary instances with symbolic width/ribbon and the output is evaluated back on every path, with UserWarning turned into an error.',
        note='Instances of non-arithmetic types are enumerated. singledispatch itself is exercised only with concrete instances.',
        ref='4 C07'),
    'C08': dict(
        text='Generated subclass family x base values x contexts with symbolic width/ribbon: on every path the output is evaluated with the defining module in scope and must be an instance of the same subclass with an equal base value.',
        note='Subclass definitions and values enumerated; widths symbolic.', ref='4 C08'),
    'C09': dict(
        text='Comment placements x adversarial comment texts on small value trees with symbolic width/ribbon: on every path the code part must parse to the uncommented tree, COMMENT tokens must carry every word in order, nothing of a comment may appear outside a comment, no warning.',
        note='Placements/texts enumerated; widths symbolic.', ref='4 C09'),
    'C10': dict(
        text='Container trees with max_seq_len N symbolic in 1..maxlen+2 (plus None and a huge limit) and symbolic width: output evaluates to the reference truncation, exactly one truncation comment per over-long container stating len-N.',
        note='islice realises N: within the bounded range z3 enumerates N and proves the count arithmetic per value.', ref='4 C10'),
    'C11': dict(
        text='Container trees with depth d symbolic and unbounded above: on every path the appearance of each leaf is proved equivalent to k < d, and the output tree is the unlimited tree with placeholders of the right type; d > height gives the depth=None text.',
        note='Trees enumerated; d fully symbolic (>= 0).', ref='4 C11'),
    'C13': dict(
        text='Object graphs with a symbolic boolean adjacency matrix (3-4 nodes): recursion markers must be exactly the back-references of a reference DFS; re-printing gives the same text.',
        note='The graph dimension is solver-driven enumeration (one path per graph).', ref='4 C13'),
    'C14': dict(
        text='Trees of instrumented objects with a symbolic fault index and exception selector: pformat returns, one warning naming the printer, output equals the fault-free output with that node replaced by its repr, later prints unaffected.',
        note='Trees enumerated; fault position and exception class symbolic.', ref='4 C14'),
    'C15': dict(
        text='Registration histories of symbolic operation codes (length <= 3/4) over a small class lattice, registries reset per path, compared against a reference dispatch model including is_registered for every flag combination.',
        note='History space explored by solver-driven enumeration; lattice fixed.', ref='4 C15'),
    'C16': dict(
        text='cpprint into a pure-Python sink with colours forced on and symbolic width; an SGR state machine checks text equality with pprint, innermost-token styling, restoration and final reset; small annotated documents with symbolic token ids through colored_render_to_stream; every pygments style shipped.',
        note='Style dimension enumerated.', ref='4 C16'),
    'C17': dict(
        text='pretty_call / pretty_call_alt with symbolic argument counts and widths against an AST oracle; dataclass / attrs field selection with symbolic flags, defaults and values.',
        note='Class skeletons enumerated.', ref='4 C17'),
    'C18': dict(
        text='Configuration merge with symbolic explicit/default flags and values after symbolic set_default_config histories, observed at the pipeline entry; agreement of the entry points on tiny values with symbolic width.',
        note='Values tiny and enumerated.', ref='4 C18'),
    'C19': dict(
        text='Histories of symbolic corpus indices printed before a symbolic target index; target text equals its fresh-interpreter baseline and inputs are unmodified.',
        note='Corpus fixed; history length <= 3.', ref='4 C19'),
}

CLAIMS['C20'] = dict(
    text='The functions on the lazily-registered-printer path (is_registered and its helper, the registering decorator, pretty_python_value) are taken from the current source, mechanically turned into coroutines that yield before every statement and run as threads on the real shared module state; the context-switch points are solver variables, so every statement-granularity interleaving with up to four context switches (two threads) / three segments (three threads) is explored and each thread\'s text is compared with the sequential result. module-level locks are modelled cooperatively.',
    note='A violation is a real schedule; absence of violations is claimed only for statement-granularity interleavings of these functions (switches inside a statement, inside functools.singledispatch, the printers, layout and renderer are outside the model). Switch points are enumerated by the solver (each path is one schedule).',
    ref='9.10')

NA = {
    'C12': 'growth law over input size: no configuration/data variable for a solver to range over, and the sizes that separate n^2 from 2^n are far beyond symbolic execution of Python (DESIGN.md 5)',
}


def main():
    checks = []
    na = []
    for n in range(1, 21):
        pid = 'C%02d' % n
        modpath = os.path.join(HERE, 'vf', 'props', pid.lower() + '.py')
        if pid in NA:
            na.append({'property_id': pid, 'reason': NA[pid]})
            continue
        if not os.path.exists(modpath):
            na.append({'property_id': pid, 'reason': 'check not built yet (planned, DESIGN.md section 4)'})
            continue
        c = CLAIMS[pid]
        checks.append({
            'property_id': pid,
            'quick_cmd': './check %s --tier quick' % pid,
            'thorough_cmd': './check %s --tier thorough' % pid,
            'evidence_file': '/verif/evidence/%s.json' % pid,
            'replay_cmd_template': './check %s --replay {path}' % pid,
            'engine': 'crosshair-z3',
            'level_claimed': {
                'category': 'other',
                'text': 'Bounded symbolic verification of the real code. ' + c['text'],
                'design_ref': 'DESIGN.md ' + c['ref'],
            },
            'level_note': c['note'],
            'technique': TECH,
        })
    man = {
        'version': 1,
        'setup_cmd': './setup.sh',
        'hooks': {
            'guard': 'PRETTYPRINTER_VERIF',
            'enable': 'no hooks are needed: the harnesses observe public functions and rebind module attributes from outside; checks import /repo as it is',
            'baseline_off_cmd': 'cd /repo && /venv/bin/python -m pytest -ra -q -p no:cacheprovider --timeout=900 --continue-on-collection-errors',
            'source_commits': [],
            'add_only': True,
        },
        'engines': [
            {'name': 'crosshair-z3', 'path': '/verif/vf/engine.py',
             'serves_properties': [c['property_id'] for c in checks],
             'kind_free_text': 'CrossHair 0.0.110 symbolic execution of the real Python modules, z3 5.1 deciding every branch; forked worker per case'},
            {'name': 'smt-lemma', 'path': '/verif/vf/lemmas.py',
             'serves_properties': ['C05'],
             'kind_free_text': 'Python expression AST -> SMT-LIB2 (QF_BVFP) translator; cvc5 1.0.3 binary and z3 wheel'},
        ],
        'checks': checks,
        'not_applicable': na,
        'notes': 'Exit codes: 0 ok, 1 VIOLATION, 3 machinery error (nothing claimed). Known findings: /verif/known_findings.json.',
    }
    with open(os.path.join(HERE, 'MANIFEST.json'), 'w') as f:
        json.dump(man, f, indent=1)
    print('claimed:', [c['property_id'] for c in checks])
    print('n/a:', [x['property_id'] for x in na])


if __name__ == '__main__':
    main()
