#!/bin/sh
# tools/verify_seed.sh <seed dir> : confirm (a) demo passes on the clean tree, (b) fails with the patch,
# (c) the pinned suite still passes with the patch.  Uses its own scratch worktree; prints one summary line.
D="$1"
TAG=$(echo "$D" | tr '/' '_')
W=/tmp/ver$TAG
[ -f "$D/patch.diff" ] && [ -f "$D/demo.py" ] || { echo "$D incomplete"; exit 2; }
git -C /repo worktree add -q --detach "$W" HEAD || exit 9
cd "$W"
PYTHONPATH="$W" /venv/bin/python "$D/demo.py" > "$D/verify_clean.out" 2>&1; a=$?
git apply "$D/patch.diff" || { echo "$D patch does not apply"; git -C /repo worktree remove --force "$W"; exit 3; }
PYTHONPATH="$W" /venv/bin/python "$D/demo.py" > "$D/verify_patched.out" 2>&1; b=$?
HYPOTHESIS_STORAGE_DIRECTORY=/tmp/hyp$TAG PYTHONPATH="$W" timeout 1500 /venv/bin/python -m pytest -q -p no:cacheprovider --timeout=900 --continue-on-collection-errors --junitxml="$D/junit.xml" tests > "$D/verify_pytest.out" 2>&1
/venv/bin/python - "$D/junit.xml" > "$D/verify_tests.txt" <<'PY'
import json, sys, xml.etree.ElementTree as ET
base = json.load(open('/root/.vp/BASELINE.json'))
res = {}
for tc in ET.parse(sys.argv[1]).iter('testcase'):
    res[tc.get('classname') + '::' + tc.get('name')] = not any(c.tag in ('failure', 'error', 'skipped') for c in tc)
missing = [n for n in base['stable_pass'] if not res.get(n)]
print('stable_pass=%d failing=%r' % (len(base['stable_pass']), missing))
PY
c=$(cat "$D/verify_tests.txt")
cd /; git -C /repo worktree remove --force "$W"; rm -rf /tmp/hyp$TAG
echo "$D clean_demo_exit=$a patched_demo_exit=$b $c"
