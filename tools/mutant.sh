#!/bin/sh
# tools/mutant.sh <patch-file|-e sedexpr file> -- <check args...>
# Apply a patch to /repo, run ./check with the remaining args, restore /repo.
set -u
PATCH="$1"; shift
if [ "$1" = "--" ]; then shift; fi
cd /repo || exit 9
if ! git diff --quiet; then echo "/repo dirty"; exit 9; fi
git apply "$PATCH" || { echo "patch failed"; exit 9; }
cd /verif
./check "$@"; rc=$?
git -C /repo checkout -- .
echo "exit=$rc"
exit $rc
