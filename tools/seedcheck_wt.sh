#!/bin/sh
# tools/seedcheck_wt.sh <seeded dir> <check id> [tier] : like seedcheck.sh but WITHOUT touching /repo:
# the patch is applied in a scratch worktree and the check is pointed at it through
# VERIF_REPO / PYTHONPATH.  Used when /repo is busy (background runs); the prescribed
# apply-to-/repo procedure is tools/seedcheck.sh.
D="$1"; P="$2"; T="${3:-quick}"
TAG=$(echo "$D" | tr '/' '_')
W=/tmp/sc$TAG
git -C /repo worktree add -q --detach "$W" HEAD || exit 9
( cd "$W" && git apply "$D/patch.diff" ) || { echo "patch does not apply: $D"; git -C /repo worktree remove --force "$W"; exit 9; }
PYTHONPATH="$W" /venv/bin/python "$D/demo.py" >/tmp/seed_demo$TAG.out 2>&1; demo=$?
cd /verif
VERIF_REPO="$W" PYTHONPATH="$W" ./check "$P" --tier "$T" > /tmp/seedwt$TAG.out 2>&1; rc=$?
git -C /repo worktree remove --force "$W"
nv=$(grep -a -c '^VIOLATION' /tmp/seedwt$TAG.out)
echo "$D check=$P tier=$T demo_exit=$demo check_exit=$rc violations=$nv $(grep -a "^$P $T" /tmp/seedwt$TAG.out | cut -c1-160)"
