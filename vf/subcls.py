"""User subclasses of the built-in types (C08, also used by C03).  Lives in an
importable module so that the printed qualified names evaluate."""
import enum

BASES = (list, tuple, set, frozenset, dict, str, bytes, int, float)

CLASSES = {}


def _mk(base, flavour):
    name = '%s%s' % (flavour, base.__name__.capitalize())
    ns = {'__module__': __name__}
    if flavour == 'Repr':
        ns['__repr__'] = lambda self: '<%s!>' % name
    elif flavour == 'Str':
        # long and of several words: a printer that (wrongly) goes through str()
        # would have something to split over lines
        ns['__str__'] = lambda self: '<<%s>> ' % name + 'not the value at all ' * 4
    elif flavour == 'Both':
        ns['__repr__'] = lambda self: '%s(?)' % name
        ns['__str__'] = lambda self: 'str:%s ' % name + 'something else entirely ' * 4
    cls = type(name, (base,), ns)
    cls.__qualname__ = name
    globals()[name] = cls
    CLASSES[name] = cls
    return cls


for _b in BASES:
    for _f in ('Plain', 'Repr', 'Str', 'Both'):
        _mk(_b, _f)


class Color(enum.IntEnum):
    RED = 1
    GREEN = 2
    BIG = 10 ** 12


class Perm(enum.IntFlag):
    R = 4
    W = 2


CLASSES['Color'] = Color


def base_of(cls):
    for b in BASES:
        if issubclass(cls, b):
            return b
    raise TypeError(cls)
