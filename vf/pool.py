"""Worker pool: one forked process per case, wall-clock budget enforced by the
parent (a hung solver is killed and the case reported INCOMPLETE)."""
import importlib
import multiprocessing as mp
import os
import time
import traceback


def _child(task, conn):
    try:
        mod = importlib.import_module('vf.props.' + task['module'])
        if task['kind'] == 'analyze':
            res = mod.run_case(task)
        elif task['kind'] == 'replay':
            res = mod.replay_case(task)
        elif task['kind'] == 'call':
            res = getattr(mod, task['fn'])(task)
        else:
            raise ValueError(task['kind'])
    except BaseException as e:  # noqa: crosshair uses BaseException subclasses
        res = {'verdict': 'MACHINERY', 'message': '%s: %s' % (type(e).__name__, e),
               'traceback': traceback.format_exc()[-3000:]}
    try:
        conn.send(res)
    except Exception as e:
        conn.send({'verdict': 'MACHINERY', 'message': 'unsendable result: %r' % e})
    conn.close()


def run_tasks(tasks, jobs=None, progress=None):
    """Run tasks (dicts with 'module', 'kind', 'wall_budget') in parallel.
    Returns results in task order."""
    ctx = mp.get_context('fork')
    jobs = jobs or int(os.environ.get('VERIF_JOBS', '0')) or os.cpu_count() or 4
    results = [None] * len(tasks)
    pending = list(range(len(tasks)))
    pending.reverse()
    running = {}
    done = 0
    while pending or running:
        while pending and len(running) < jobs:
            i = pending.pop()
            parent, child = ctx.Pipe(duplex=False)
            p = ctx.Process(target=_child, args=(tasks[i], child), daemon=True)
            p.start()
            child.close()
            running[i] = (p, parent, time.time())
        time.sleep(0.02)
        for i in list(running):
            p, conn, t0 = running[i]
            fin = False
            if conn.poll():
                try:
                    results[i] = conn.recv()
                except EOFError:
                    results[i] = {'verdict': 'MACHINERY',
                                  'message': 'worker died without result (exit %r)' % p.exitcode}
                fin = True
            elif not p.is_alive():
                # may have finished between poll and is_alive
                if conn.poll():
                    try:
                        results[i] = conn.recv()
                    except EOFError:
                        results[i] = {'verdict': 'MACHINERY',
                                      'message': 'worker died (exit %r)' % p.exitcode}
                else:
                    results[i] = {'verdict': 'MACHINERY',
                                  'message': 'worker died (exit %r)' % p.exitcode}
                fin = True
            elif time.time() - t0 > tasks[i].get('wall_budget', 600):
                p.kill()
                results[i] = {'verdict': 'INCOMPLETE', 'paths': 0,
                              'message': 'killed after wall budget %.0fs' % tasks[i].get('wall_budget', 600),
                              'wall_s': time.time() - t0}
                fin = True
            if fin:
                results[i].setdefault('wall_s', round(time.time() - t0, 3))
                p.join(timeout=5)
                if p.is_alive():
                    p.kill()
                conn.close()
                del running[i]
                done += 1
                if progress:
                    progress(done, len(tasks), tasks[i], results[i])
    return results
