"""Stubs shared by the harnesses.

The only stubbed kernel of the code under analysis is the float computation of
the ribbon width (DESIGN.md 2.3).  In symbolic runs ``ribbon_width`` /
``ribbon_frac`` are duck-typed objects that support exactly the operations the
real code applies to them; any other use raises ``StubEscape`` (a machinery
error, never a verdict).  Native replays use real floats.
"""


class StubEscape(BaseException):
    """The code under analysis used a stub in a way the stub does not model."""


class Prod:
    __slots__ = ('rw', 'w')

    def __init__(self, rw, w):
        self.rw = rw
        self.w = w

    def __round__(self, ndigits=None):
        if ndigits is not None:
            raise StubEscape('round(Prod, ndigits)')
        # Lemma L1: round(min(1.0, rw / w) * w) == min(rw, w) for 1 <= rw, w <= 200
        return self.rw if self.rw < self.w else self.w

    # round(x + c): the stub still answers min(rw, w); whether the *actual* source
    # formula equals that is exactly what lemma L1 decides from the current
    # source (a refuted lemma is turned into a native witness, an untranslatable
    # formula is a machinery error).
    def __add__(self, other):
        if not isinstance(other, (int, float)) or isinstance(other, bool):
            raise StubEscape('Prod + %r' % (other,))
        return self

    __radd__ = __add__

    # (int(x) / math.floor(x) cannot be supported: CPython insists on a real int
    # from __int__ / __floor__, so such formulas end as a machinery error.)

    def __getattr__(self, name):
        raise StubEscape('Prod.%s' % name)


class Frac:
    """Stands for the float ``min(1.0, rw / w)``."""
    __slots__ = ('rw', 'w')

    def __init__(self, rw, w):
        self.rw = rw
        self.w = w

    def __lt__(self, other):
        # only ``min(1.0, frac)`` compares it; returning True keeps the Frac
        # (Prod.__round__ applies the clamp to 1.0 itself).
        if other != 1.0:
            raise StubEscape('Frac < %r' % (other,))
        return True

    def __gt__(self, other):
        if other != 1.0:
            raise StubEscape('Frac > %r' % (other,))
        return False

    def __mul__(self, width):
        if width is not self.w:
            raise StubEscape('Frac * <something that is not the page width>')
        return Prod(self.rw, width)

    __rmul__ = __mul__

    def __getattr__(self, name):
        raise StubEscape('Frac.%s' % name)


class RW:
    """Stands for the integer ``ribbon_width`` argument of python_to_sdocs."""
    __slots__ = ('rw',)

    def __init__(self, rw):
        self.rw = rw

    def __truediv__(self, width):
        return Frac(self.rw, width)

    def __getattr__(self, name):
        raise StubEscape('RW.%s' % name)


def ribbon_arg(rw, w, native):
    """ribbon_width argument for python_to_sdocs / pformat."""
    return rw if native else RW(rw)


def ribbon_frac_arg(rw, w, native):
    """ribbon_frac argument for layout_smart / layout_fast (rw <= w)."""
    return min(1.0, rw / w) if native else Frac(rw, w)


class Sink:
    """A pure-Python text stream (StringIO is C code and would realise every
    symbolic fragment)."""

    def __init__(self):
        self.parts = []

    def write(self, s):
        self.parts.append(s)

    def getvalue(self):
        return ''.join(self.parts)
