"""Evidence files (schema /root/.vp/EVIDENCE.schema.json, level "other")."""
from collections import Counter


def build_evidence(prop, tier, seed, tasks, results, violations, machinery,
                   tolerated, wall, extra):
    verdicts = Counter()
    paths = 0
    queries = 0
    zsec = 0.0
    zunk = 0
    nontrivial = set()
    samples = []
    fam_counts = Counter()
    known_hits = Counter()
    functions = set()
    ncross = 0
    for t, r in zip(tasks, results):
        ncross += int(r.get('native_crosschecks') or 0)
        v = r.get('verdict', '?')
        verdicts[v] += 1
        paths += int(r.get('paths') or 0)
        queries += int(r.get('z3_queries') or 0)
        zsec += float(r.get('z3_seconds') or 0)
        zunk += int(r.get('z3_unknown') or 0)
        fam_counts[t.get('family', t.get('fn', '?'))] += 1
        if int(r.get('paths') or 0) >= 2 or t.get('kind') == 'call':
            nontrivial.add(t['name'])
        for k in r.get('known_hits', ()):
            known_hits[k] += 1
        for f in r.get('functions', ()):
            functions.add(f)
        rp = r.get('replay') or {}
        for f in rp.get('functions', ()):
            functions.add(f)
    # a few written-out cases: first, a middle one, last, plus any refuted
    idxs = sorted(set([0, len(tasks) // 2, len(tasks) - 1]) & set(range(len(tasks))))
    for i in idxs:
        t, r = tasks[i], results[i]
        samples.append({'case': t['name'], 'family': t.get('family', t.get('fn')),
                        'params': t.get('params'), 'verdict': r.get('verdict'),
                        'paths': r.get('paths'), 'z3_queries': r.get('z3_queries'),
                        'wall_s': r.get('wall_s')})
    for path, rec in violations[:5]:
        samples.append({'violation': rec, 'replay': path})
    incomplete = [
        {'case': t['name'], 'why': (r.get('message') or '')[:200], 'paths': r.get('paths')}
        for t, r in zip(tasks, results) if r.get('verdict') in ('INCOMPLETE', 'VACUOUS')]
    cov = {
        'explanation': (
            'Bounded symbolic verification of the real code: each case is one '
            'concrete shape whose remaining dimensions (listed under bounds) '
            'are solver variables; CrossHair executes the repository functions '
            'path by path, every branch condition is decided by z3, and a case '
            'is CONFIRMED only if every path was explored to the end with no '
            'solver unknown / timeout.  INCOMPLETE cases are not claimed. '
            'Counterexamples are replayed natively before being reported.'),
        'evaluations': len(tasks),
        'distinct_nontrivial': len(nontrivial),
        'rule': ('one evaluation = one symbolic case (a shape plus solver-'
                 'quantified parameters); non-trivial = the symbolic run forked '
                 'into at least two feasible paths (or is an SMT lemma); cases '
                 'are distinct by name'),
        'samples': samples,
        'verdicts': dict(verdicts),
        'cases_confirmed_all_paths': verdicts.get('CONFIRMED', 0),
        'cases_incomplete': verdicts.get('INCOMPLETE', 0) + verdicts.get('VACUOUS', 0),
        'incomplete_cases': incomplete[:40],
        'paths': paths,
        'z3_queries': queries,
        'z3_seconds': round(zsec, 2),
        'z3_unknown': zunk,
        'families': dict(fam_counts),
        'known_finding_hits': dict(known_hits),
        'tolerated_known_findings': sorted(tolerated),
        'native_crosschecks': ncross,
        'native_crosschecks_note': ('after the symbolic run, the same harness executed by the real interpreter on '
                                    'concrete configurations of the case (validation of the encoding: CrossHair\'s '
                                    'models of built-ins are not CPython); a native failure is reported as a counterexample'),
        'machinery_errors': machinery[:20],
        'functions_encoded': sorted(functions),
        'exhaustive': False,
    }
    cov.update(extra.get('coverage', {}))
    ev = {
        'property_id': prop,
        'tier': tier,
        'seed': seed,
        'level': 'other',
        'coverage': cov,
        'assumptions': extra.get('assumptions', []),
        'wall_s': round(wall, 2),
        'violations': len(violations),
    }
    return ev
