"""Common scaffolding of the per-property harness modules."""
import os
import sys
import time

from crosshair.tracers import NoTracing

REPO = os.environ.get('VERIF_REPO', '/repo')


class CaseBase:
    """One *case*: a concrete shape (document / value skeleton / class lattice)
    whose remaining dimensions are the symbolic parameters of the family's
    harness function.  ``run`` holds the assertion logic and is executed both
    symbolically (by CrossHair, ``native=False``) and natively (replays)."""

    def __init__(self, params):
        self.params = params
        self.native = False
        self.known = set()
        self.known_hits = set()
        self.last_fail = None

    def fail(self, key, detail=None):
        """Report a violated sub-rule.  A key listed (and natively reproduced)
        as a known finding is noted and tolerated so that the rest of the
        space is still explored; anything else fails the postcondition."""
        with NoTracing():
            if key in self.known:
                self.known_hits.add(key)
                return True
            d = ''
            if self.native and detail is not None:
                try:
                    d = detail() if callable(detail) else str(detail)
                except Exception as e:  # pragma: no cover
                    d = '<detail failed: %r>' % (e,)
            self.last_fail = (key, d[:4000])
            return False


class Family:
    """name, harness (CrossHair-analysed function), twin (reachability twin
    whose postcondition is False), make(params) -> CaseBase"""

    def __init__(self, name, harness, twin, make, install):
        self.name = name
        self.harness = harness
        self.twin = twin
        self.make = make
        self.install = install      # install(case): bind the module global


def profile_functions(fn, *a, **k):
    """Run fn natively and collect the /repo functions entered."""
    seen = set()
    prefix = os.path.join(REPO, 'prettyprinter')

    def prof(frame, event, arg):
        if event == 'call':
            co = frame.f_code
            if co.co_filename.startswith(prefix):
                seen.add('%s:%s' % (os.path.relpath(co.co_filename, REPO),
                                    co.co_qualname if hasattr(co, 'co_qualname') else co.co_name))
    old = sys.getprofile()
    sys.setprofile(prof)
    try:
        try:
            r = fn(*a, **k)
        except Exception as e:
            r = e
    finally:
        sys.setprofile(old)
    return r, sorted(seen)


def generic_run_case(families, task):
    from vf import engine
    fam = families[task['family']]
    case = fam.make(task['params'])
    case.known = set(task.get('known_keys', ()))
    fam.install(case)
    t0 = time.time()
    if task.get('twin'):
        # on the cases that also run the reachability twin, a profile hook
        # records which /repo functions the symbolic run enters (all paths)
        r, fns = profile_functions(engine.analyze, fam.harness, task.get('budget', 60.0),
                                   task.get('path_timeout', 20.0))
        if isinstance(r, Exception):
            raise r
        r['functions'] = fns
    else:
        r = engine.analyze(fam.harness, task.get('budget', 60.0),
                           task.get('path_timeout', 20.0))
    r['known_hits'] = sorted(case.known_hits)
    if task.get('twin') and r['verdict'] in ('CONFIRMED', 'INCOMPLETE'):
        case2 = fam.make(task['params'])
        case2.known = set(task.get('known_keys', ()))
        fam.install(case2)
        # the reachability twin also serves to record which /repo functions the
        # harness really enters (profile hook active during its symbolic run)
        rt = engine.analyze(fam.twin, 30.0, 15.0)
        r['twin'] = rt['verdict']
        r['twin_paths'] = rt['paths']
    if r['verdict'] in ('CONFIRMED', 'INCOMPLETE') and hasattr(case, 'native_probes'):
        native_crosscheck(fam, task, r)
    r['wall_s'] = round(time.time() - t0, 3)
    return r


def native_crosscheck(fam, task, r):
    """Validation of the encoding: the same harness is run by the real
    interpreter (no tracer, no stubs, real floats) on a few concrete arguments
    of the case.  CrossHair's models of built-ins are not CPython (e.g. str(x)
    on a str subclass ignores an overridden __str__): where the native run
    fails although the symbolic run passed, the native failure is what counts -
    it is handed to the runner as a counterexample and replayed like any other."""
    probe = fam.make(task['params'])
    probe.native = True
    probe.known = set(task.get('known_keys', ()))
    fam.install(probe)
    n = 0
    try:
        for args in probe.native_probes():
            n += 1
            try:
                ok = probe.run_native(args)
            except Exception as e:      # a harness problem, not a verdict
                r['native_crosscheck_error'] = '%s: %s' % (type(e).__name__, e)
                break
            if ok is False:
                r.update(verdict='REFUTED', args=args,
                         message='native cross-check: the real interpreter fails on %r where the symbolic run '
                                 'did not (%s)' % (args, (probe.last_fail or ('?',))[0]))
                r['native_crosscheck_failed'] = True
                break
    finally:
        r['native_crosschecks'] = n


def generic_replay_case(families, task):
    """Native replay of concrete arguments: no tracer, no stubs, real floats."""
    fam = families[task['family']]
    case = fam.make(task['params'])
    case.native = True
    case.known = set(task.get('known_keys', ()))
    fam.install(case)
    args = task['args']
    if task.get('profile'):
        ok, fns = profile_functions(case.run_native, args)
    else:
        try:
            ok = case.run_native(args)
        except Exception as e:
            ok = e
        fns = []
    out = {'functions': fns, 'known_hits': sorted(case.known_hits)}
    if isinstance(ok, Exception):
        out.update(ok=False, key='harness-exception',
                   detail='%s: %s' % (type(ok).__name__, ok))
    elif ok:
        out.update(ok=True, key=None, detail='')
    else:
        key, detail = case.last_fail or ('unspecified', '')
        out.update(ok=False, key=key, detail=detail)
    return out
