"""Boundary instances of the standard-library types the package ships
printers for (C07, also C03).  (kind, source) pairs; the source is evaluated in
vf.props.c07.stdlib_ns()."""
import collections
import enum
import typing


class Shade(enum.Enum):
    DARK = 'dark'
    LIGHT = 'light'


class Access(enum.Flag):
    R = 4
    W = 2
    X = 1


Point = collections.namedtuple('Point', 'x y')
Empty = collections.namedtuple('Empty', '')


class Typed(typing.NamedTuple):
    name: str
    n: int = 0


class MyError(Exception):
    pass


def fn(*a, **k):
    return (a, k)


class Unparseable:
    """An object whose repr is not a Python expression."""

    def __repr__(self):
        return '<unparseable>'


BAD = Unparseable()


def instances():
    D = 'datetime.datetime'
    T = 'datetime.timedelta'
    out = []
    add = lambda kind, *srcs: out.extend((kind, s) for s in srcs)
    add('datetime',
        D + '(2020, 1, 2)', D + '(2020, 1, 2, 3, 4, 5, 6)', D + '(1, 1, 1)',
        D + '(9999, 12, 31, 23, 59, 59, 999999)', D + '(2020, 1, 1, 0, 0, 0, 5)',
        D + '(2020, 1, 2, 3)', D + '(2020, 1, 2, 0, 4)', D + '(2020, 1, 2, 3, fold=1)',
        D + '(2020, 1, 2, 0, 0, 0, 0, fold=1)',
        D + '(2020, 1, 2, tzinfo=datetime.timezone.utc)',
        D + '(2020, 1, 2, 3, 4, tzinfo=datetime.timezone(datetime.timedelta(hours=1)))',
        D + "(2020, 1, 2, 3, tzinfo=datetime.timezone(datetime.timedelta(hours=-5), 'EST'), fold=1)")
    add('date', 'datetime.date(2020, 1, 2)', 'datetime.date.min', 'datetime.date.max')
    add('time', 'datetime.time()', 'datetime.time(1)', 'datetime.time(1, 2, 3, 4)',
        'datetime.time(0, 0, 0, 5)', 'datetime.time(0, 0, 7)', 'datetime.time(23, 59, 59, 999999)',
        'datetime.time(1, tzinfo=datetime.timezone.utc)', 'datetime.time(1, fold=1)',
        'datetime.time(0, fold=1)',
        'datetime.time(1, 2, tzinfo=datetime.timezone(datetime.timedelta(minutes=90)))')
    add('timedelta', T + '(0)', T + '(days=1)', T + '(days=-1)', T + '(microseconds=1)',
        T + '(microseconds=-1)', T + '.max', T + '.min', T + '(days=365)', T + '(days=366)',
        T + '(days=730, seconds=5)', T + '(milliseconds=1500)', T + '(hours=25, minutes=61)',
        T + '(days=-400, seconds=3)', T + '(days=364, hours=23, minutes=59, seconds=59, milliseconds=999, microseconds=999)')
    add('timezone', 'datetime.timezone.utc', 'datetime.timezone(datetime.timedelta(hours=1))',
        "datetime.timezone(datetime.timedelta(hours=-5, minutes=-30), 'X')",
        "datetime.timezone(datetime.timedelta(0), 'Zero')",
        'datetime.timezone(datetime.timedelta(hours=23, minutes=59))',
        'datetime.timezone(-datetime.timedelta(hours=23, minutes=59))',
        "datetime.timezone(datetime.timedelta(seconds=1, microseconds=5), 'odd')",
        "datetime.timezone(datetime.timedelta(hours=2), '')")
    try:
        import pytz  # noqa
        add('pytz', "pytz.timezone('GMT')", "pytz.timezone('Etc/UTC')", "pytz.timezone('Zulu')", "pytz.timezone('Etc/GMT+0')",
            "pytz.timezone('Etc/GMT-5')", "pytz.FixedOffset(0)", "pytz.FixedOffset(-330)")
        add('pytz', 'pytz.utc', "pytz.timezone('Europe/Helsinki')", "pytz.timezone('US/Eastern')",
            "pytz.timezone('UTC')", "pytz.FixedOffset(90)" if False else "pytz.timezone('Asia/Kolkata')")
        add('datetime', "pytz.timezone('Europe/Helsinki').localize(datetime.datetime(2020, 7, 1, 12))",
            "pytz.utc.localize(datetime.datetime(2020, 7, 1, 12))",
            "datetime.datetime(2020, 1, 2, tzinfo=pytz.timezone('GMT'))",
            "datetime.time(1, 2, tzinfo=pytz.timezone('Etc/GMT-5'))")
    except ImportError:
        pass
    try:
        import pytz  # noqa
        # the same tzinfo object (pytz memoises FixedOffset) twice in one value; its printer returns a plain str
        add('list', "[datetime.datetime(2020, 1, 2, tzinfo=pytz.FixedOffset(90)), datetime.datetime(2021, 3, 4, tzinfo=pytz.FixedOffset(90))]",
            "[pytz.FixedOffset(30), pytz.FixedOffset(30), datetime.time(1, tzinfo=pytz.FixedOffset(30))]")
    except ImportError:
        pass
    add('ordered', 'collections.OrderedDict()', 'collections.OrderedDict([(1, 2), (3, 4)])',
        "collections.OrderedDict([('b', [1]), ('a', {})])")
    add('defaultdict', 'collections.defaultdict(int, {1: 2})', 'collections.defaultdict(list)',
        'collections.defaultdict(None, {})', "collections.defaultdict(dict, {'a': {}, 'b': {1: 2}, 'c': {}})")
    add('deque', 'collections.deque()', 'collections.deque([1, 2])', 'collections.deque([], maxlen=3)',
        'collections.deque([1, 2, 3], maxlen=3)', 'collections.deque([1], maxlen=0)', "collections.deque(['a', (1,)], 10**9)")
    add('counter', 'collections.Counter()', "collections.Counter('aab')", 'collections.Counter({1: -1, 2: 0})')
    add('chainmap', "collections.ChainMap({}, {'a': 1})", "collections.ChainMap({}, {}, {1: 2})",
        "collections.ChainMap({'a': 1}).new_child()")
    add('counter', "collections.Counter({'a': 1, 'b': 'many'})", "collections.Counter({'x': None, 'y': 2.5})")
    add('chainmap', 'collections.ChainMap()', 'collections.ChainMap({})', 'collections.ChainMap({1: 2}, {3: 4})',
        'collections.ChainMap({}, {})', 'collections.ChainMap({1: 2})')
    add('mappingproxy', 'types.MappingProxyType({})', 'types.MappingProxyType({1: 2})',
        "types.MappingProxyType({'a': [1, 2], 'b': 3, 'c': 4})")
    add('uuid', "uuid.UUID('12345678-1234-5678-1234-567812345678')", 'uuid.UUID(int=0)', 'uuid.UUID(int=2**128-1)')
    add('enum', 'vf.stdvals.Shade.DARK', 'vf.subcls.Color.RED', 'vf.subcls.Color.BIG', 'vf.stdvals.Access.R',
        'vf.subcls.Perm.W')
    add('flagcombo', 'vf.stdvals.Access.R | vf.stdvals.Access.W', 'vf.stdvals.Access(0)')
    add('namespace', 'types.SimpleNamespace()', "types.SimpleNamespace(a=1, b='x')", 'types.SimpleNamespace(z=[1], a=None)',
        'types.SimpleNamespace(fn=len)', 'types.SimpleNamespace(a=1, cls=collections.OrderedDict, z=vf.stdvals.fn)')
    add('namedtuple', 'vf.stdvals.Point(len, 1)', 'vf.stdvals.Point(0, vf.stdvals.fn)', 'vf.stdvals.Point(1, 2)', 'vf.stdvals.Point([1], {})', 'vf.stdvals.Empty()',
        "vf.stdvals.Typed('n')", "vf.stdvals.Typed('n', 3)")
    add('structtime', 'time.gmtime(0)', 'time.struct_time((2020, 1, 2, 3, 4, 5, 6, 7, 0))')
    add('partial', 'functools.partial(vf.stdvals.fn)', 'functools.partial(vf.stdvals.fn, 1, k=2)',
        "functools.partial(vf.stdvals.fn, 'a', [1])", 'functools.partial(sorted, key=None)',
        'functools.partial(dict, fn=len)', 'functools.partial(sorted, key=vf.stdvals.fn, reverse=True)')
    add('exception', "ValueError('x', 1)", 'KeyError()', "vf.stdvals.MyError('boom')", 'Exception([1, 2])',
        "OSError(2, 'msg')", 'StopIteration(None)', "UnicodeDecodeError('utf-8', b'x', 0, 1, 'bad')")
    add('path', "pathlib.PurePosixPath('a/b')", "pathlib.PurePosixPath('.')", "pathlib.PurePosixPath('/')",
        "pathlib.PureWindowsPath('C:/x/y')", "pathlib.PosixPath('/tmp/some where')",
        "pathlib.PurePosixPath('a/../b')", "pathlib.PurePosixPath('" + 'd/' * 45 + "f')",
        "pathlib.PurePosixPath('it\\'s')",
        "pathlib.PurePosixPath('//usr/local/lib/python3/site-packages/some/rather/long/path/that/has/to/be/split.py')",
        "pathlib.PureWindowsPath('//server/share/folder/another folder/yet/another/one/that/is/long/enough/file.txt')",
        "pathlib.PurePosixPath('/' + 'segment-with-dashes/' * 8 + 'end')")
    return out
