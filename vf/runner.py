"""Check driver: ./check <id> --tier quick|thorough [--replay file]

exit 0  no unlisted violation on everything explored
exit 1  VIOLATION property=<id> replay=<path>  (natively reproduced)
exit 3  machinery error (non-reproducing counterexample, stub escape, lemma
        inconclusive, worker crash): nothing is claimed
"""
import argparse
import hashlib
import importlib
import json
import os
import sys
import time

HERE = os.path.dirname(os.path.dirname(os.path.abspath(__file__)))
KNOWN_FILE = os.path.join(HERE, 'known_findings.json')


def load_known(prop):
    try:
        data = json.load(open(KNOWN_FILE))
    except FileNotFoundError:
        return []
    return [e for e in data.get('findings', [])
            if e.get('property') == prop and e.get('status') == 'known']


def write_replay(prop, rec):
    d = os.path.join(HERE, 'replays', prop)
    os.makedirs(d, exist_ok=True)
    blob = json.dumps(rec, sort_keys=True, default=repr)
    h = hashlib.sha1(blob.encode()).hexdigest()[:12]
    path = os.path.join(d, h + '.json')
    with open(path, 'w') as f:
        f.write(json.dumps(rec, indent=1, sort_keys=True, default=repr))
    return path


def main(argv=None):
    ap = argparse.ArgumentParser()
    ap.add_argument('prop')
    ap.add_argument('--tier', default=os.environ.get('VERIF_TIER', 'quick'),
                    choices=['quick', 'thorough'])
    ap.add_argument('--replay')
    ap.add_argument('--only', help='substring filter on case names (debugging)')
    ap.add_argument('--jobs', type=int, default=0)
    ap.add_argument('--verbose', '-v', action='store_true')
    a = ap.parse_args(argv)
    prop = a.prop.upper()
    seed = int(os.environ.get('VERIF_SEED', '0') or 0)
    modname = prop.lower()
    t_start = time.time()

    from vf import pool
    mod = importlib.import_module('vf.props.' + modname)

    if a.replay:
        rec = json.load(open(a.replay))
        task = {'module': modname, 'kind': 'replay', 'family': rec['family'],
                'params': rec['params'], 'args': rec['args'], 'known_keys': [],
                'wall_budget': 600}
        r = pool.run_tasks([task], jobs=1)[0]
        print(json.dumps(r, indent=1, default=repr))
        if r.get('ok') is False:
            print('VIOLATION property=%s replay=%s' % (prop, a.replay))
            return 1
        print('replay did not reproduce a violation')
        return 0

    # ---- known findings: tolerated only while their witness reproduces
    tolerated = {}
    machinery = []
    known_entries = load_known(prop)
    ktasks = []
    for e in known_entries:
        w = e['witness']
        ktasks.append({'module': modname, 'kind': 'replay', 'family': w['family'],
                       'params': w['params'], 'args': w['args'],
                       'known_keys': [], 'wall_budget': 300})
    kres = pool.run_tasks(ktasks, jobs=a.jobs or None) if ktasks else []
    for e, r in zip(known_entries, kres):
        if r.get('ok') is False and r.get('key') == e['key']:
            tolerated[e['key']] = e
            print('KNOWN-FINDING: property=%s %s [key=%s]' % (prop, e['what'], e['key']))
        else:
            print('note: listed finding %s no longer reproduces on its witness '
                  '(%s); it is not tolerated in this run' % (e['key'], r.get('key')))
    sys.stdout.flush()

    # ---- cases
    cases = mod.cases(a.tier, seed)
    sampling = None
    keep = getattr(mod, 'THOROUGH_KEEP', None)
    if a.tier == 'thorough' and keep:
        # deterministic thinning of the largest thorough tiers (time): a case
        # stays if it carries the reachability twin, is a lemma, is marked
        # 'keep', or its name hashes below the fraction given for its family
        import zlib
        n0 = len(cases)

        def stays(c):
            f = keep.get(c.get('family'), keep.get('*', 1.0))
            if c.get('twin') or c.get('kind') == 'call' or c.get('keep'):
                return True
            return zlib.crc32(c['name'].encode()) % 1000 < f * 1000
        cases = [c for c in cases if stays(c)]
        sampling = 'thorough tier thinned deterministically by case-name hash: %d of %d cases run (fractions per family: %r)' % (
            len(cases), n0, keep)
    if a.only:
        cases = [c for c in cases if a.only in c['name']]
    tasks = []
    for c in cases:
        t = dict(c)
        t.update(module=modname, known_keys=sorted(tolerated))
        t.setdefault('kind', 'analyze')
        t.setdefault('budget', 60.0)
        t.setdefault('path_timeout', 20.0)
        t.setdefault('wall_budget', t['budget'] * 2.5 + 60)
        tasks.append(t)

    # longest budgets first (better packing of the worker pool)
    tasks.sort(key=lambda t: -float(t.get('budget', 60.0)))

    def progress(done, total, task, res):
        if a.verbose:
            print('[%d/%d] %-50s %-10s paths=%s %.1fs %s' % (
                done, total, task['name'][:50], res.get('verdict'),
                res.get('paths'), res.get('wall_s', 0),
                (res.get('message') or '')[:100]))
            sys.stdout.flush()

    results = pool.run_tasks(tasks, jobs=a.jobs or None, progress=progress)

    # ---- native replay of every counterexample
    rtasks = []
    ridx = []
    for i, (t, r) in enumerate(zip(tasks, results)):
        if t['kind'] != 'analyze':
            continue
        if r.get('verdict') in ('REFUTED', 'ERROR'):
            if r.get('args') is None:
                machinery.append('%s: counterexample without parsable arguments: %s'
                                 % (t['name'], r.get('message')))
                continue
            rtasks.append({'module': modname, 'kind': 'replay', 'family': t['family'],
                           'params': t['params'], 'args': r['args'],
                           'known_keys': [], 'wall_budget': 300})
            ridx.append(i)
    rres = pool.run_tasks(rtasks, jobs=a.jobs or None) if rtasks else []
    violations = []
    known_seen = set()
    for i, rr in zip(ridx, rres):
        t, r = tasks[i], results[i]
        r['replay'] = rr
        if rr.get('ok') is False:
            if rr.get('key') in tolerated:
                known_seen.add(rr['key'])
                r['verdict'] = 'KNOWN'
                continue
            rec = {'property': prop, 'family': t['family'], 'case': t['name'],
                   'params': t['params'], 'args': r['args'], 'key': rr.get('key'),
                   'detail': rr.get('detail'), 'symbolic_message': r.get('message')}
            path = write_replay(prop, rec)
            violations.append((path, rec))
        elif rr.get('verdict') == 'MACHINERY':
            machinery.append('%s: replay crashed: %s' % (t['name'], rr.get('message')))
        else:
            r['verdict'] = 'SPURIOUS'
            machinery.append('%s: counterexample %r did not reproduce natively (%s)'
                             % (t['name'], r['args'], r.get('message')))

    # ---- extra (non-CrossHair) obligations, e.g. SMT lemmas
    for t, r in zip(tasks, results):
        if r.get('verdict') == 'MACHINERY':
            machinery.append('%s: %s\n%s' % (t['name'], r.get('message'), r.get('traceback', '')))
        if t['kind'] == 'call' and r.get('verdict') == 'VIOLATION':
            rec = {'property': prop, 'family': r.get('family', t.get('family', t.get('fn'))), 'case': t['name'],
                   'params': r.get('params', t.get('params')), 'args': r.get('args'),
                   'key': r.get('key'), 'detail': r.get('detail')}
            if r.get('key') in tolerated:
                known_seen.add(r['key'])
            else:
                violations.append((write_replay(prop, rec), rec))
        if r.get('twin') not in (None, 'REFUTED', 'ERROR'):
            machinery.append('%s: reachability twin came back %s (vacuous harness?)'
                             % (t['name'], r.get('twin')))

    # ---- evidence
    wall = time.time() - t_start
    ev = mod.evidence(a.tier, seed, tasks, results) if hasattr(mod, 'evidence') else {}
    if sampling:
        ev.setdefault('coverage', {})['thorough_sampling'] = sampling
    from vf import report
    evidence = report.build_evidence(prop, a.tier, seed, tasks, results,
                                     violations, machinery, tolerated, wall, ev)
    os.makedirs(os.path.join(HERE, 'evidence'), exist_ok=True)
    with open(os.path.join(HERE, 'evidence', prop + '.json'), 'w') as f:
        json.dump(evidence, f, indent=1, default=repr)

    counts = evidence['coverage']['verdicts']
    print('%s %s: %d cases %s, %d paths, %d z3 queries (%.1fs solver), wall %.0fs' % (
        prop, a.tier, len(tasks), json.dumps(counts), evidence['coverage']['paths'],
        evidence['coverage']['z3_queries'], evidence['coverage']['z3_seconds'], wall))
    for path, rec in violations:
        print('VIOLATION property=%s replay=%s' % (prop, path))
        print('  case=%s key=%s args=%r' % (rec['case'], rec['key'], rec['args']))
        if rec.get('detail'):
            d = ''.join(ch if (ch == '\n' or ' ' <= ch <= '~') else '\\x%02x' % ord(ch)
                        for ch in str(rec['detail']))
            print('  ' + d.replace('\n', '\n  ')[:1500])
    for m in machinery:
        print('MACHINERY-ERROR: ' + m[:2000])
    sys.stdout.flush()
    if violations:
        return 1
    if machinery:
        return 3
    return 0


if __name__ == '__main__':
    sys.exit(main())
