"""E2: SMT lemma about the one kernel CrossHair cannot digest - the float
computation of the ribbon width (DESIGN.md 2.3).

The two source expressions are located in /repo's *current* AST on every run:

  prettyprinter/prettyprinter.py  python_to_sdocs:  ribbon_frac = min(1.0, ribbon_width / width)
  prettyprinter/layout.py         best_layout and both fitting predicates:
                                  ribbon_width = max(0, min(width, round(ribbon_frac * width)))

They are composed and translated to SMT-LIB2 (QF_BVFP: 16-bit signed ints,
Float64, RNE, Python's round-half-even) and the lemma

  L1:  for all 1 <= rw <= 200, 1 <= w <= 200:
       composed(rw, w) == max(0, min(w, min(rw, w)))        (= min(rw, w))

is discharged by the cvc5 binary (and z3 in the thorough tier).  The symbolic
runs replace exactly the sub-expression round(<float>) by min(rw, w)
(vf/stubs.py); all integer operations around it are the real code.
"""
import ast
import os
import random
import subprocess
import tempfile
import time

REPO = os.environ.get('VERIF_REPO', '/repo')
BOUND = 200


class Untranslatable(Exception):
    pass


def _find_assign(tree, funcname, target):
    out = []
    for node in ast.walk(tree):
        if isinstance(node, ast.FunctionDef) and node.name == funcname:
            for sub in ast.walk(node):
                if (isinstance(sub, ast.Assign) and len(sub.targets) == 1 and
                        isinstance(sub.targets[0], ast.Name) and sub.targets[0].id == target):
                    out.append(sub.value)
    return out


class _Inline(ast.NodeTransformer):
    """Replace calls of module-level helper functions whose body is a single
    ``return <expression>`` by that expression (arguments substituted), so that
    a refactoring which moves the formula into a helper stays translatable."""

    def __init__(self, module):
        self.helpers = {}
        for node in module.body:
            if isinstance(node, ast.FunctionDef) and not node.decorator_list:
                body = [b for b in node.body
                        if not (isinstance(b, ast.Expr) and isinstance(b.value, ast.Constant))]
                if len(body) == 1 and isinstance(body[0], ast.Return) and body[0].value is not None \
                        and not node.args.vararg and not node.args.kwarg and not node.args.kwonlyargs:
                    self.helpers[node.name] = (
                        [a.arg for a in node.args.args], body[0].value)

    def visit_Call(self, node):
        self.generic_visit(node)
        if isinstance(node.func, ast.Name) and node.func.id in self.helpers:
            params, expr = self.helpers[node.func.id]
            binding = {}
            for p, a in zip(params, node.args):
                binding[p] = a
            for kw in node.keywords:
                if kw.arg in params:
                    binding[kw.arg] = kw.value
            if set(binding) != set(params):
                return node

            class Sub(ast.NodeTransformer):
                def visit_Name(self, n):
                    return binding.get(n.id, n)
            import copy
            return self.visit(Sub().visit(copy.deepcopy(expr)))
        return node


def source_expressions():
    """[(where, frac_expr_ast, ribbon_expr_ast, width_name)]"""
    pp = ast.parse(open(os.path.join(REPO, 'prettyprinter', 'prettyprinter.py')).read())
    lay = ast.parse(open(os.path.join(REPO, 'prettyprinter', 'layout.py')).read())
    pp_inline = _Inline(pp)
    lay_inline = _Inline(lay)
    fr = _find_assign(pp, 'python_to_sdocs', 'ribbon_frac')
    if len(fr) != 1:
        raise Untranslatable('ribbon_frac assignment in python_to_sdocs not found exactly once')
    out = []
    for fn, wname in (('best_layout', 'width'),
                      ('fast_fitting_predicate', 'page_width'),
                      ('smart_fitting_predicate', 'page_width')):
        rb = _find_assign(lay, fn, 'ribbon_width')
        if len(rb) != 1:
            raise Untranslatable('ribbon_width assignment in %s not found exactly once' % fn)
        out.append((fn, pp_inline.visit(fr[0]), lay_inline.visit(rb[0]), wname))
    return out


# ---- translation ---------------------------------------------------------
# every translated term is (sort, text) with sort in {'int', 'fp'}

FP = '(_ FloatingPoint 11 53)'
BW = 16


def _bv(n):
    return '(_ bv%d %d)' % (n % (1 << BW), BW)


def _to_fp(t):
    s, x = t
    if s == 'fp':
        return x
    return '((_ to_fp 11 53) RNE %s)' % x


def translate(node, env):
    if isinstance(node, ast.Constant):
        if isinstance(node.value, bool):
            raise Untranslatable('bool constant')
        if isinstance(node.value, int):
            return ('int', _bv(node.value))
        if isinstance(node.value, float):
            return ('fp', '((_ to_fp 11 53) RNE %r)' % node.value)
        raise Untranslatable(repr(node.value))
    if isinstance(node, ast.Name):
        if node.id not in env:
            raise Untranslatable('free name ' + node.id)
        return env[node.id]
    if isinstance(node, ast.UnaryOp) and isinstance(node.op, ast.USub):
        s, x = translate(node.operand, env)
        return (s, '(bvneg %s)' % x) if s == 'int' else (s, '(fp.neg %s)' % x)
    if isinstance(node, ast.BinOp):
        l = translate(node.left, env)
        r = translate(node.right, env)
        op = type(node.op)
        if op is ast.Div:
            return ('fp', '(fp.div RNE %s %s)' % (_to_fp(l), _to_fp(r)))
        if l[0] == 'int' and r[0] == 'int':
            name = {ast.Add: 'bvadd', ast.Sub: 'bvsub', ast.Mult: 'bvmul'}.get(op)
            if not name:
                raise Untranslatable(ast.dump(node.op))
            return ('int', '(%s %s %s)' % (name, l[1], r[1]))
        name = {ast.Add: 'fp.add', ast.Sub: 'fp.sub', ast.Mult: 'fp.mul'}.get(op)
        if not name:
            raise Untranslatable(ast.dump(node.op))
        return ('fp', '(%s RNE %s %s)' % (name, _to_fp(l), _to_fp(r)))
    if isinstance(node, ast.Call) and isinstance(node.func, ast.Name) and not node.keywords:
        f = node.func.id
        args = [translate(a, env) for a in node.args]
        if f in ('min', 'max') and len(args) == 2:
            a, b = args
            # Python: min(a, b) = b if b < a else a ; max(a, b) = b if b > a else a
            if a[0] == 'int' and b[0] == 'int':
                cmp_ = 'bvslt' if f == 'min' else 'bvsgt'
                return ('int', '(ite (%s %s %s) %s %s)' % (cmp_, b[1], a[1], b[1], a[1]))
            if a[0] != b[0]:
                # mixed int/float min: value semantics only (result sort fp);
                # exact for the small ints in range
                pass
            cmp_ = 'fp.lt' if f == 'min' else 'fp.gt'
            return ('fp', '(ite (%s %s %s) %s %s)' % (cmp_, _to_fp(b), _to_fp(a), _to_fp(b), _to_fp(a)))
        if f == 'round' and len(args) == 1:
            a = args[0]
            if a[0] == 'int':
                return a
            return ('int', '((_ fp.to_sbv %d) RNE %s)' % (BW, a[1]))
        if f == 'int' and len(args) == 1:
            a = args[0]
            if a[0] == 'int':
                return a
            return ('int', '((_ fp.to_sbv %d) RTZ %s)' % (BW, a[1]))
        if f == 'abs' and len(args) == 1:
            a = args[0]
            if a[0] == 'int':
                return ('int', '(ite (bvslt %s %s) (bvneg %s) %s)' % (a[1], _bv(0), a[1], a[1]))
            return ('fp', '(fp.abs %s)' % a[1])
        if f == 'float' and len(args) == 1:
            return ('fp', _to_fp(args[0]))
        raise Untranslatable('call ' + f)
    if isinstance(node, ast.IfExp):
        raise Untranslatable('conditional expression')
    raise Untranslatable(ast.dump(node)[:80])


def composed_smt(frac_ast, ribbon_ast, wname, lo_w, hi_w):
    env = {'ribbon_width': ('int', 'rw'), 'width': ('int', 'w')}
    frac = translate(frac_ast, env)
    env2 = {'ribbon_frac': frac, wname: ('int', 'w')}
    rib = translate(ribbon_ast, env2)
    if rib[0] != 'int':
        raise Untranslatable('ribbon width expression is not an int')
    want = '(ite (bvslt rw w) rw w)'
    want = '(ite (bvsgt %s %s) %s %s)' % (want, _bv(0), want, _bv(0))
    return '\n'.join([
        '(set-logic QF_BVFP)',
        '(declare-const rw (_ BitVec %d))' % BW,
        '(declare-const w (_ BitVec %d))' % BW,
        '(assert (and (bvsle %s rw) (bvsle rw %s) (bvsle %s w) (bvsle w %s)))' % (
            _bv(1), _bv(BOUND), _bv(lo_w), _bv(hi_w)),
        '(assert (not (= %s %s)))' % (rib[1], want),
        '(check-sat)',
        '(get-value (rw w))',
    ]) + '\n'


def py_composed(frac_ast, ribbon_ast, wname):
    """The same composition evaluated by CPython (translator validation and
    native replay)."""
    fcode = compile(ast.Expression(frac_ast), '<frac>', 'eval')
    rcode = compile(ast.Expression(ribbon_ast), '<ribbon>', 'eval')

    def f(rw, w):
        frac = eval(fcode, {'min': min, 'max': max, 'round': round, 'abs': abs},
                    {'ribbon_width': rw, 'width': w})
        return eval(rcode, {'min': min, 'max': max, 'round': round, 'abs': abs},
                    {'ribbon_frac': frac, wname: w})
    return f


def _parse_model(text):
    import re
    vals = {}
    for name, bits in re.findall(r'\((rw|w)\s+#b([01]+)\)', text):
        vals[name] = int(bits, 2)
    for name, hx in re.findall(r'\((rw|w)\s+#x([0-9a-fA-F]+)\)', text):
        vals[name] = int(hx, 16)
    for name, d in re.findall(r'\((rw|w)\s+\(_ bv(\d+) \d+\)\)', text):
        vals[name] = int(d)
    return vals


def run_cvc5(smt, timeout):
    with tempfile.NamedTemporaryFile('w', suffix='.smt2', delete=False) as f:
        f.write(smt)
        path = f.name
    try:
        p = subprocess.run(['cvc5', '--produce-models', path], capture_output=True,
                           text=True, timeout=timeout)
        out = p.stdout + p.stderr
    except subprocess.TimeoutExpired:
        return 'timeout', ''
    finally:
        os.unlink(path)
    first = out.strip().split('\n')[0].strip() if out.strip() else ''
    if '(error' in out and first != 'unsat':
        # get-value after unsat prints an error; anything else is inconclusive
        return 'error', out
    if first == 'unsat' and out.count('(error') > 1:
        return 'error', out
    return first, out


def run_z3(smt, timeout):
    import z3
    s = z3.Solver()
    s.set('timeout', int(timeout * 1000))
    body = smt.replace('(check-sat)', '').replace('(get-value (rw w))', '')
    s.from_string(body)
    r = str(s.check())
    if r == 'sat':
        m = s.model()
        vals = {str(d): m[d].as_long() for d in m.decls()}
        return r, '((rw #x%04x) (w #x%04x))' % (vals.get('rw', 0), vals.get('w', 0))
    return r, ''


def lemma_task(task):
    """Pool entry ('call'): discharge L1 for one source site and one sub-range
    of the page width with the requested solver."""
    t0 = time.time()
    params = task['params']
    site = params['site']
    lo, hi = params['w_range']
    solver = params['solver']
    try:
        sites = {s[0]: s for s in source_expressions()}
        fn, frac_ast, rib_ast, wname = sites[site]
        smt = composed_smt(frac_ast, rib_ast, wname, lo, hi)
    except Untranslatable as e:
        return {'verdict': 'MACHINERY', 'paths': 0,
                'message': 'ribbon expression at %s is outside the translated fragment (%s): '
                           'encoding no longer valid, nothing judged' % (site, e)}
    f = py_composed(frac_ast, rib_ast, wname)
    # translator validation: the SMT term and CPython agree on seeded points
    # (checked by asking the solver for the value at fixed points is costly;
    # instead validate the *expected* side natively and rely on the two-solver
    # diff for the encoding) -> native scan gives the ground truth directly:
    native_bad = None
    for w in range(lo, hi + 1):
        for rw in range(1, BOUND + 1):
            if f(rw, w) != max(0, min(w, min(rw, w))):
                native_bad = (rw, w)
                break
        if native_bad:
            break
    if solver == 'cvc5':
        r, out = run_cvc5(smt, task.get('budget', 300))
    else:
        r, out = run_z3(smt, task.get('budget', 600))
    res = {'paths': 1, 'z3_queries': 1 if solver == 'z3' else 0,
           'z3_seconds': round(time.time() - t0, 2) if solver == 'z3' else 0.0,
           'solver': solver, 'solver_result': r, 'wall_s': round(time.time() - t0, 2),
           'smt_bytes': len(smt)}
    if r == 'unsat':
        if native_bad is not None:
            res.update(verdict='MACHINERY',
                       message='solver says unsat but native evaluation differs at %r: translator wrong' % (native_bad,))
        else:
            res.update(verdict='CONFIRMED', message='L1 holds at %s for w in %d..%d' % (site, lo, hi))
        return res
    if r == 'sat':
        vals = _parse_model(out)
        rw, w = vals.get('rw'), vals.get('w')
        if rw is None or w is None:
            res.update(verdict='MACHINERY', message='sat without parsable model: ' + out[:300])
            return res
        got = f(rw, w)
        want = max(0, min(w, min(rw, w)))
        if got == want:
            res.update(verdict='MACHINERY',
                       message='solver model rw=%d w=%d does not reproduce natively (%r == %r)' % (rw, w, got, want))
            return res
        res.update(verdict='LEMMA-REFUTED', model={'rw': rw, 'w': w, 'got': got, 'want': want},
                   message='ribbon width at %s for ribbon_width=%d width=%d is %d, not %d' % (site, rw, w, got, want))
        return res
    res.update(verdict='INCOMPLETE', message='solver answered %r' % r)
    return res


def lemma_tasks(tier, module):
    """Tasks for the pool: distinct source expressions x sub-ranges of w.
    Sites whose expressions are identical (up to the name of the width
    variable) share one query; every site is named in the task."""
    out = []
    ranges = [(1, 50), (51, 100), (101, 150), (151, 200)]
    try:
        sites = source_expressions()
    except Untranslatable:
        sites = [(s, None, None, None) for s in
                 ('best_layout', 'fast_fitting_predicate', 'smart_fitting_predicate')]
    groups = {}
    for fn, fr, rb, wname in sites:
        if rb is None:
            key = fn
        else:
            key = ast.dump(rb).replace(repr(wname), "'W'") + ast.dump(fr)
        groups.setdefault(key, []).append(fn)
    for key, fns in groups.items():
        site = fns[0]
        for lo, hi in ranges:
            solvers = ['cvc5'] + (['z3'] if tier == 'thorough' else [])
            for sv in solvers:
                out.append({'name': 'L1:%s:w%d-%d:%s' % ('+'.join(fns), lo, hi, sv), 'kind': 'call',
                            'fn': 'lemma_task', 'family': 'lemma-L1',
                            'params': {'site': site, 'sites': fns, 'w_range': [lo, hi], 'solver': sv},
                            'budget': 300.0 if sv == 'cvc5' else 900.0,
                            'wall_budget': 400.0 if sv == 'cvc5' else 1000.0})
    return out
