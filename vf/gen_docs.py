"""Document shapes for the layout-engine properties (C04, C05, C06).

Shapes are the nested tuples of vf.refsem.  Text leaves are numbered left to
right after generation (``number``), nest/hang offsets likewise.
"""
import itertools
import random

from vf.refsem import shape_stats, contains_kind

LINE = ('line',)
SOFT = ('softline',)
HARD = ('hardline',)
NIL = ('nil',)
X = ('t', None)          # unnumbered text leaf
OV = ('v', None)         # unnumbered symbolic offset


def S(s):
    return ('s', s)


def cat(*ds):
    return ('cat', list(ds))


def grp(d):
    return ('grp', d)


def nest(d, off=OV):
    return ('nest', off, d)


def hang(d, off=OV):
    return ('hang', off, d)


def ab(d):
    return ('ab', d)


def fill(*ds):
    return ('fill', list(ds))


def align(d):
    return ('align', d)


def ann(tag, d):
    return ('ann', tag, d)


def fc(broken, flat):
    return ('fc', broken, flat)


def sh(key, d):
    return ('sh', key, d)


def number(shape):
    """Number text leaves and offset variables left to right."""
    nt = [0]
    no = [0]

    def off(o):
        if o[0] == 'v':
            no[0] += 1
            return ('v', no[0] - 1)
        return o

    def walk(s):
        k = s[0]
        if k == 't':
            nt[0] += 1
            return ('t', nt[0] - 1)
        if k in ('cat', 'fill'):
            return (k, [walk(c) for c in s[1]])
        if k in ('nest', 'hang'):
            o = off(s[1])
            return (k, o, walk(s[2]))
        if k in ('grp', 'ab', 'align'):
            return (k, walk(s[1]))
        if k == 'fc':
            return ('fc', walk(s[1]), walk(s[2]))
        if k == 'ann':
            return ('ann', s[1], walk(s[2]))
        if k == 'sh':
            # every occurrence of a shared sub-document gets the SAME numbering
            if s[1] not in shared:
                shared[s[1]] = walk(s[2])
            return ('sh', s[1], shared[s[1]])
        return s
    shared = {}
    return walk(shape)


def show(s):
    k = s[0]
    if k == 't':
        return 't%s' % s[1]
    if k == 's':
        return repr(s[1])
    if k in ('nil', 'line', 'softline', 'hardline'):
        return k.upper()
    if k in ('cat', 'fill'):
        return '%s[%s]' % (k, ' '.join(show(c) for c in s[1]))
    if k in ('nest', 'hang'):
        o = ('i%s' % s[1][1]) if s[1][0] == 'v' else str(s[1][1])
        return '%s(%s,%s)' % (k, o, show(s[2]))
    if k in ('grp', 'ab', 'align'):
        return '%s(%s)' % (k, show(s[1]))
    if k == 'fc':
        return 'fc(b=%s,f=%s)' % (show(s[1]), show(s[2]))
    if k == 'ann':
        return 'ann%d(%s)' % (s[1], show(s[2]))
    if k == 'sh':
        return 'shared%s(%s)' % (s[1], show(s[2]))
    return repr(s)


# --------------------------------------------------------------------------
# curated idioms (the patterns of the bundled printers and the corner cases
# the property text names)

def _bracket(l, child, r, outer=grp):
    return outer(cat(S(l), nest(cat(SOFT, child)), SOFT, S(r)))


def curated_full():
    """Full algebra (C04)."""
    out = []
    a = X
    add = out.append
    add(('bracket2', grp(cat(a, nest(cat(LINE, a)), LINE, a))))
    add(('seq2', _bracket('[', cat(a, cat(S(','), LINE), a), ']')))
    add(('seq3', _bracket('[', cat(a, cat(S(','), LINE), a, cat(S(','), LINE), a), ']')))
    add(('seq2-ab', _bracket('[', cat(a, cat(S(','), LINE), a), ']', outer=ab)))
    add(('seq-nested', _bracket('[', cat(a, cat(S(','), LINE),
                                         _bracket('(', cat(a, cat(S(','), LINE), a), ')')), ']')))
    add(('fncall', grp(cat(a, S('('), nest(cat(SOFT, cat(cat(a, S(',')), LINE, a))), SOFT, S(')')))))
    add(('fncall-hug', grp(cat(a, S('('), _bracket('[', cat(a, cat(S(','), LINE), a), ']'), S(')')))))
    add(('commented-el', ab(cat(S('['), nest(cat(SOFT, grp(fc(
        broken=cat(a, HARD, a, S(','), HARD),
        flat=cat(a, S(','), S('  '), a, HARD))), a)), SOFT, S(']')))))
    add(('dictpair', _bracket('{', cat(cat(a, S(': '), a, S(','), LINE), cat(a, S(': '), a)), '}')))
    add(('dictpair-ab', _bracket('{', cat(cat(a, S(': '), a, S(','), LINE), cat(a, S(': '), a)), '}', outer=ab)))
    add(('nested-grp-r', grp(cat(a, LINE, grp(cat(a, LINE, a))))))
    add(('nested-grp-l', grp(cat(grp(cat(a, LINE, a)), LINE, a))))
    add(('two-grps', cat(grp(cat(a, LINE, a)), grp(cat(LINE, a)))))
    add(('grp-then-text', cat(grp(cat(a, LINE, a)), a)))
    add(('grp-in-nest-then-line', cat(a, nest(cat(LINE, grp(cat(a, LINE, a)))), LINE, a)))
    # a group in a nest, followed on the same line by text of a shallower level
    add(('grp-in-nest-then-text', cat(a, nest(cat(LINE, grp(cat(a, LINE, a)))), a)))
    add(('grp-in-2nests-then-text', nest(cat(a, nest(cat(HARD, grp(cat(a, LINE, a)))), a, LINE, a))))
    # align / hang reached at a column left of the nesting level (no break since the nest)
    add(('align-left-of-nest', nest(align(grp(cat(a, LINE, a))))))
    add(('align-left-of-nest-2', cat(a, nest(align(grp(cat(a, LINE, a)))))))
    add(('hang-left-of-nest', cat(a, nest(hang(grp(cat(a, LINE, a)))))))
    # groups whose only choices sit inside an align / hang
    add(('grp-of-align', grp(align(cat(a, LINE, a)))))
    add(('grp-of-hang', grp(hang(cat(a, LINE, a)))))
    add(('grp-of-text-align-text', grp(cat(a, align(cat(a, LINE, a)), a))))
    add(('align-grp', cat(a, align(grp(cat(a, LINE, a))))))
    add(('align-hard', cat(a, align(cat(a, HARD, a)))))
    add(('align-in-grp', grp(cat(a, S(' '), align(cat(a, LINE, a))))))
    add(('align-nested', cat(a, align(cat(a, HARD, nest(cat(a, HARD, a)))))))
    add(('hang-grp', grp(cat(a, hang(cat(a, LINE, a))))))
    add(('hang-hard', cat(a, S(' '), hang(cat(a, HARD, a, HARD, a)))))
    add(('nest-align', nest(cat(a, HARD, align(cat(a, HARD, a))))))
    add(('fill3', fill(a, LINE, a, LINE, a)))
    add(('fill2', fill(a, LINE, a)))
    add(('fill1', fill(a)))
    add(('fill4-soft', fill(a, SOFT, a, SOFT, a, SOFT, a)))
    add(('fill-grp-items', fill(grp(cat(a, LINE, a)), LINE, a)))
    add(('fill-in-grp', grp(cat(a, LINE, fill(a, LINE, a)))))
    add(('fill-nest', nest(fill(a, LINE, a, LINE, a))))
    add(('fill-comment', cat(S('# '), fill(a, fc(broken=ab(cat(HARD, S('# '))), flat=S(' ')), a,
                                          fc(broken=ab(cat(HARD, S('# '))), flat=S(' ')), a))))
    add(('fill-ab-item', fill(ab(cat(a, LINE, a)), LINE, a)))
    add(('fill-empty', cat(a, fill(), a)))
    add(('fill-emptystr', fill(S(''), LINE, a)))
    add(('ann-grp', ann(0, grp(cat(a, LINE, a)))))
    add(('grp-ann', grp(ann(0, cat(a, LINE, a)))))
    add(('ann-nested', ann(0, cat(a, ann(1, cat(a, LINE)), a))))
    add(('ann-in-grp-nested', grp(cat(ann(0, a), LINE, ann(1, ann(0, a)), LINE, a))))
    add(('ann-ab', grp(ann(0, ab(cat(a, LINE, a))))))
    add(('ann-ab-then', grp(cat(ann(0, ab(a)), LINE, a))))
    add(('ann-nil', cat(a, ann(0, NIL), a)))
    add(('ann-emptystr', cat(a, ann(0, S('')), a)))
    add(('ann-hard', ann(0, cat(a, HARD, a))))
    add(('ann-align', ann(0, cat(a, align(cat(a, HARD, ann(1, a)))))))
    add(('ann-fill', ann(0, fill(ann(1, a), LINE, a))))
    add(('bare-grp', grp(a)))
    add(('bare-nest', nest(a)))
    add(('bare-ab', ab(a)))
    add(('bare-nest-in-cat', cat(a, nest(a), HARD, a)))
    add(('bare-align', cat(a, align(a))))
    add(('bare-hang', cat(a, hang(a))))
    add(('bare-root', a))
    add(('raw-hard-in-grp', grp(cat(a, LINE, a, HARD, a))))
    add(('raw-hard-end-grp', grp(cat(a, LINE, a, HARD))))
    add(('hard-only-grp', grp(cat(a, HARD, a))))
    add(('fc-grp', grp(fc(broken=a, flat=a))))
    add(('fc-top', fc(broken=cat(a, HARD, a), flat=a)))
    add(('fc-nested', grp(cat(a, fc(broken=cat(HARD, a), flat=cat(S(' '), fc(broken=a, flat=a)))))))
    add(('fc-ab-broken', grp(cat(a, fc(broken=ab(cat(HARD, a)), flat=cat(S(' '), a))))))
    add(('fc-in-ab', ab(cat(a, fc(broken=cat(HARD, a), flat=a)))))
    add(('ab-in-grp', grp(cat(a, LINE, ab(cat(a, LINE, a))))))
    add(('grp-then-ab', cat(grp(cat(a, LINE, a)), ab(a))))
    add(('grp-then-ab-line', cat(grp(cat(a, LINE, a)), ab(cat(LINE, a)))))
    add(('ab-ab', ab(ab(cat(a, LINE, a)))))
    add(('ab-grp-inner', ab(cat(a, LINE, grp(cat(a, LINE, a))))))
    add(('nest-ab', grp(nest(ab(cat(a, LINE, a))))))
    add(('cat1-ab', grp(cat(ab(cat(a, LINE, a))))))
    add(('cat1-ab-padded', grp(cat(S(''), ab(cat(a, LINE, a)), NIL))))
    add(('cat1-ab-inner', grp(cat(a, LINE, cat(ab(cat(a, LINE, a))), LINE, a))))
    add(('cat1-ab-nest', grp(cat(a, nest(cat(ab(cat(LINE, a)))), LINE, a))))
    add(('cat1-ab-ann', grp(ann(0, cat(ab(cat(a, LINE, a)))))))
    add(('cat1-grp', cat(grp(cat(a, LINE, a)))))
    add(('cat1-hard', grp(cat(a, LINE, cat(HARD), a))))
    add(('fill1-ab', grp(cat(a, LINE, fill(ab(cat(a, LINE, a)))))))
    # a fill inside an item of another fill (directly / below a group)
    add(('fill-in-fill', fill(fill(a, LINE, a, LINE, a), LINE, a)))
    add(('fill-in-fill-grp', fill(a, LINE, grp(cat(S('('), fill(a, LINE, a, LINE, a), S(')'))), LINE, a)))
    # the same document object used at two places (different indentation / column)
    _al = align(cat(a, LINE, a))
    add(('shared-align', cat(nest(cat(a, HARD, sh('A', _al)), off=('c', 4)), HARD, S('....'), sh('A', _al))))
    _hg = hang(cat(a, HARD, a))
    add(('shared-hang', cat(a, S(' '), sh('H', _hg), HARD, nest(cat(a, S(' '), sh('H', _hg))))))
    _g = grp(cat(a, LINE, a))
    add(('shared-grp', cat(sh('G', _g), HARD, nest(cat(a, a, sh('G', _g))))))
    _fc = fc(cat(a, HARD, a), a)
    add(('shared-fc', cat(grp(sh('F', _fc)), HARD, ab(sh('F', _fc)))))
    add(('nils', cat(a, S(''), NIL, a)))
    add(('grp-nil', cat(a, grp(NIL), a)))
    add(('nest-nil', cat(a, nest(NIL), a)))
    add(('cat-empty', cat(a, cat(), a)))
    add(('soft', grp(cat(a, SOFT, a))))
    add(('soft-nest', grp(cat(a, nest(cat(SOFT, a)), SOFT, a))))
    add(('trailing-space', cat(a, S(' '), HARD, a)))
    add(('line-top', cat(a, LINE, a)))
    add(('soft-top', cat(a, SOFT, a)))
    add(('nest-nest', nest(cat(a, nest(cat(LINE, a)), LINE, a))))
    add(('nest-neg', cat(a, nest(cat(a, nest(cat(HARD, a), off=('c', -2))), off=('c', 4)))))
    add(('grp-grp', grp(grp(cat(a, LINE, a)))))
    add(('three-grps', cat(grp(cat(a, LINE)), grp(cat(a, LINE)), grp(a))))
    return [(n, number(s)) for n, s in out]


CLASSIC = {'t', 's', 'nil', 'cat', 'nest', 'grp', 'line', 'softline',
           'hardline', 'ab', 'align', 'hang'}


def is_classic(shape):
    return shape_stats(shape)[4] <= CLASSIC


def curated_classic():
    """Classic algebra (C05, C06): the curated shapes without fill,
    flat_choice, annotate, plus width-sensitive extras."""
    out = [(n, s) for n, s in curated_full() if is_classic(s)]
    a = X
    extra = []
    add = extra.append
    add(('grp-rest-grp', cat(grp(cat(a, LINE, a)), S(','), grp(cat(LINE, a, LINE, a)))))
    add(('grp-deeper-next', cat(grp(cat(a, LINE, a)), nest(cat(LINE, a, LINE, a)))))
    add(('grp-deeper-next-in-grp', grp(cat(grp(cat(a, LINE, a)), nest(cat(LINE, a))))))
    add(('outer-broken-inner', ab(cat(a, nest(cat(LINE, grp(cat(a, LINE, a)), LINE, a)), LINE, a))))
    add(('ribbon-nest', nest(cat(a, LINE, grp(cat(a, LINE, a))))))
    add(('grp-after-text', cat(a, S(' '), grp(cat(a, LINE, a)))))
    add(('grp-ab-same-line', cat(grp(cat(a, LINE, a)), S(' '), ab(cat(a, LINE, a)))))
    add(('grp-soft-only', grp(cat(a, SOFT, a, SOFT, a))))
    add(('grp4', grp(cat(a, LINE, a, LINE, a, LINE, a))))
    add(('nested3', grp(cat(a, LINE, grp(cat(a, LINE, grp(cat(a, LINE, a))))))))
    add(('align-after-grp', cat(grp(cat(a, LINE, a)), align(cat(a, HARD, a)))))
    # a group reached while the enclosing group is already flat (raw HARDLINE inside it)
    add(('grp-after-hard-in-grp', grp(cat(a, HARD, grp(cat(a, LINE, a))))))
    add(('grp-after-hard-in-grp-nest', grp(cat(a, nest(cat(HARD, grp(cat(a, LINE, a)))), HARD, a))))
    add(('grp-after-hard-in-2grps', grp(grp(cat(a, HARD, grp(cat(a, SOFT, a)), LINE, a)))))
    # a group sitting on a line that is indented deeper than the group's own indentation
    add(('grp-on-deeper-line', cat(a, nest(cat(LINE, a)), grp(cat(a, LINE, a)))))
    add(('grp-on-deeper-line-2', cat(nest(cat(a, HARD, a), off=('c', 6)), S(' '), grp(cat(a, LINE, a, LINE, a)))))
    add(('grp-on-deeper-line-nested', nest(cat(a, nest(cat(HARD, a)), grp(cat(LINE, a, LINE, a))))))
    # the group's only child is a nest (ribbon origin = the group's indentation, not the nest's)
    add(('grp-of-nest', grp(nest(cat(a, LINE, a, LINE, a)))))
    add(('grp-of-nest-in-nest', nest(cat(a, LINE, grp(nest(cat(a, LINE, a)))))))
    add(('grp-of-grp-nest', grp(grp(nest(cat(a, SOFT, a))))))
    # a group that ends the document (nothing follows its last text)
    add(('grp-last-text', cat(a, LINE, grp(cat(a, LINE, a)))))
    add(('grp-in-align-only', grp(align(cat(a, LINE, a)))))
    add(('grp-in-hang-only', grp(hang(cat(a, LINE, a, SOFT, a)))))
    # a flat group followed on the same line by a more deeply indented group
    add(('grp-then-deeper-grp', cat(grp(cat(a, LINE, a)), nest(grp(cat(LINE, a))))))
    add(('grp-then-deeper-grp-2', cat(grp(cat(a, LINE, a)), S(','), nest(grp(cat(LINE, a, LINE, a)), off=('c', 6)))))
    add(('grp-then-aligned-grp', cat(grp(cat(a, SOFT, a)), S(' '), align(grp(cat(a, LINE, a))))))
    add(('grp-then-deeper-grp-in-grp', grp(cat(grp(cat(a, LINE, a)), nest(grp(cat(LINE, a, LINE, a)))))))
    add(('grp-on-shallower-line', nest(cat(a, nest(cat(HARD, a), off=('c', -2)), grp(cat(a, LINE, a))), off=('c', 4))))
    add(('grp-in-align', cat(a, align(cat(grp(cat(a, LINE, a)), HARD, a)))))
    return out + [(n, number(s)) for n, s in extra]


# --------------------------------------------------------------------------
# bounded-exhaustive enumeration

def _atoms(full):
    return [X, LINE, SOFT, HARD] + ([NIL] if full else [])


def enum_shapes(size, full=True, _memo={}):
    """All shapes with exactly ``size`` combinator nodes (atoms are free)."""
    key = (size, full)
    if key in _memo:
        return _memo[key]
    res = []
    if size == 0:
        res = list(_atoms(full))
    else:
        sub = lambda n: enum_shapes(n, full)
        # unary combinators
        for d in sub(size - 1):
            res.append(cat(d))
            res.append(grp(d))
            res.append(nest(d))
            res.append(ab(d))
            res.append(align(d))
            if full:
                res.append(hang(d))
                res.append(ann(0, d))
        # binary / ternary concat and fill, flat_choice
        for n1 in range(0, size):
            n2 = size - 1 - n1
            for d1 in sub(n1):
                for d2 in sub(n2):
                    res.append(cat(d1, d2))
                    if full:
                        res.append(fc(d1, d2))
                        if n1 == 0 or n2 == 0:
                            res.append(fill(d1, d2))
        if size <= 2:
            for n1 in range(0, size):
                for n2 in range(0, size - n1):
                    n3 = size - 1 - n1 - n2
                    for d1 in sub(n1):
                        for d2 in sub(n2):
                            for d3 in sub(n3):
                                res.append(cat(d1, d2, d3))
                                if full and d2 in (LINE, SOFT):
                                    res.append(fill(d1, d2, d3))
    _memo[key] = res
    return res


def interesting(shape, max_leaves=4, max_offs=2):
    """Counts are taken on the *numbered* shape (unnumbered leaves / offsets
    are all the same placeholder)."""
    n, nl, no, ntag, kinds = shape_stats(number(shape))
    if nl > max_leaves or no > max_offs or nl == 0:
        return False
    return True


def enumerated(max_size, full, max_leaves=4):
    out = []
    seen = set()
    for size in range(0, max_size + 1):
        for s in enum_shapes(size, full):
            if not interesting(s, max_leaves):
                continue
            ns = number(s)
            key = show(ns)
            if key in seen:
                continue
            seen.add(key)
            out.append(('e%d:%s' % (size, key), ns))
    return out


def random_shapes(count, seed, full, max_nodes=8, max_leaves=4):
    rnd = random.Random(seed)
    out = []

    def gen(budget):
        if budget <= 0 or rnd.random() < 0.25:
            return rnd.choice([X, X, X, LINE, LINE, SOFT, HARD] + ([NIL, S(' '), S(',')] if full else []))
        ops = ['grp', 'grp', 'nest', 'ab', 'align', 'cat', 'cat', 'cat', 'cat3', 'cat1', 'catpad']
        if full:
            ops += ['hang', 'ann', 'fc', 'fill']
        op = rnd.choice(ops)
        if op == 'grp':
            return grp(gen(budget - 1))
        if op == 'nest':
            return nest(gen(budget - 1))
        if op == 'ab':
            return ab(gen(budget - 1))
        if op == 'align':
            return align(gen(budget - 1))
        if op == 'hang':
            return hang(gen(budget - 1))
        if op == 'ann':
            return ann(rnd.randrange(2), gen(budget - 1))
        if op == 'fc':
            return fc(gen((budget - 1) // 2), gen((budget - 1) // 2))
        if op == 'fill':
            k = rnd.choice([1, 2, 3, 5])
            items = []
            for j in range(k):
                items.append(gen((budget - 1) // k) if j % 2 == 0 else rnd.choice([LINE, SOFT]))
            return fill(*items)
        if op == 'cat1':
            return cat(gen(budget - 1))
        if op == 'catpad':
            return cat(S(''), gen(budget - 1), NIL) if full else cat(gen(budget - 1))
        if op == 'cat':
            return cat(gen((budget - 1) // 2), gen((budget - 1) // 2))
        return cat(gen((budget - 1) // 3), gen((budget - 1) // 3), gen((budget - 1) // 3))
    tries = 0
    seen = set()
    while len(out) < count and tries < count * 50:
        tries += 1
        s = gen(max_nodes)
        if not interesting(s, max_leaves):
            continue
        n = shape_stats(s)[0]
        if n < 5:
            continue
        ns = number(s)
        key = show(ns)
        if key in seen:
            continue
        seen.add(key)
        out.append(('r:%s' % key, ns))
    return out
