"""Value corpora for the pformat-level properties.  Values are given as
Python source (JSON-able, replayable) evaluated in a small namespace."""
import itertools
import random

LONG_STR = "'The quick brown fox jumps over the lazy dog and keeps running until the line is far too long'"
LONG_STR_NOSPACE = "'" + 'abcdefghij' * 9 + "'"
LONG_STR_PUNCT = "'alpha/beta/gamma/delta/epsilon/zeta/eta/theta/iota/kappa/lambda/mu/nu/xi/omicron/pi/rho'"
LONG_BYTES = "b'The quick brown fox jumps over the lazy dog and keeps running until the line is far too long'"
LONG_BYTES_BIN = "bytes(range(40))"
LONG_STR_QUOTES = repr('she said "yes" and "no" and "maybe" but it\'s all the same to them in the end, isn\'t it')
LONG_STR_QUOTES2 = repr("it's 'single' heavy and isn't \"double\" heavy at all, that's how it's meant to be, y'all")
LONG_BYTES_QUOTES = repr(b'she said "yes" and "no" and "maybe" but it\'s all the same to them in the end, isn\'t it')

LONG_BYTES_PUNCT = "b'alpha/beta/gamma/delta/epsilon/zeta/eta/theta/iota/kappa/lambda/mu/nu/xi/omicron/pi/rho--sigma::tau'"
LONG_BYTES_HIGH = "b'" + '\\xe9t\\xe9/' * 14 + "fin'"

# values that are equal (and hash alike) but must print differently, side by side
CONFUSABLE = [
    '[0.0, -0.0]', '[-0.0, 0.0]', '{0.0: -0.0, 1: True}', '(1, True, 1.0)',
    '[1, 1.0, True, 0, False, 0.0, -0.0]', "['a', b'a', 'a']", '[(1,), (1.0,), (True,)]',
    '{1: [1.0], 2: [True], 3: [1]}', "[10**20, 1e20, float(10**20)]",
]

# dicts whose keys are mutually comparable but of mixed type / out of order
SORTED_DICTS = [
    "{2: 'a', 1.5: 'b', -1: 'c', 0.5: 'd'}",
    "{True: 1, 0.5: 2}",
    "{3: 0, 2.0: 0, True: 0, -0.5: 0}",
    "{'b': 1, 'a': 2, 'C': 3, '': 4}",
    "{b'b': 1, b'a': 2}",
    "{(2, 'x'): 1, (1, 'y'): 2, (1, 'a'): 3}",
    "{2: {20: 1, 10.5: 2}, 1: {'z': 1, 'y': 2}}",
    "{10**20: 1, -10**20: 2, 0: 3}",
    "{1: 'sorted', 2: 'already', 3: 'x'}",
    "{3: 'reverse', 2: 'order', 1: 'x'}",
    "[{2.5: 1, 2: 2}, ({'k': {1: 1, 0.5: 2}},)]",
    "{float('inf'): 1, 0: 2, float('-inf'): 3}",
    "{frozenset({1}): 1, frozenset(): 2}",
]

LEAVES = [
    '0', '-1', '10**20', 'True', 'False', 'None', '...',
    '0.0', '-0.0', '1.5', "float('inf')", "float('-inf')", "float('nan')", '1e300', '-2.5e-07',
    "''", "'a'", '"it\'s"', "'q\"'", "'a\\\\b'", "'two words'", "'\\n'", "'\\x00'", "'\\xe9'", "'\\U0001f600'",
    '"\'\\""', LONG_STR,
    "b''", "b'x\\x00'", "b'\\''", LONG_BYTES,
]

SHORT_LEAVES = [x for x in LEAVES if x not in (LONG_STR, LONG_BYTES)]

SKELETONS = [
    '[_]', '[_, _]', '[_, _, _]', '(_,)', '(_, _)', '()', '[]', '{}', 'set()', 'frozenset()',
    '{_}', '{_, _}', 'frozenset({_})', 'frozenset({_, _})',
    '{_: _}', '{_: _, _: _}', '{_: _, _: _, _: _}',
    '[[_], _]', '[(_,), {_: _}]', '{_: [_, _]}', '{_: {_: _}}', '([_, {_: (_,)}], _)',
    '[{_}, frozenset({_})]', '{(_, _): _}', '{frozenset({_}): _}', '[[[[_]]]]',
    '{_: {_: {_: _}}}', '[(), [], {}, set(), frozenset()]', '((_,),)', '[[_, _], [_, _]]',
    '{_: (_, _), _: [_]}', '(_, [_, (_, {_: _})])', '[{_: _, _: _, _: _}, _]',
    '{_: frozenset({_, _})}', '[_, [_, [_, [_, [_]]]]]',
]


def fill_holes(skel, leaves):
    out = []
    it = iter(leaves)
    for ch in skel:
        if ch == '_':
            out.append(next(it))
        else:
            out.append(ch)
    return ''.join(out)


def holes(skel):
    return skel.count('_')


def values_ns():
    return {'__builtins__': {'float': float, 'frozenset': frozenset, 'set': set,
                             'bytes': bytes, 'range': range, 'dict': dict,
                             'list': list, 'tuple': tuple}}


def make_value(src):
    return eval(src, values_ns())


def hashable_ok(src):
    try:
        make_value(src)
        return True
    except TypeError:
        return False


def rotating_assignments(skel, leaves, count, rnd):
    """``count`` assignments of leaves to the holes of ``skel`` such that over
    the whole corpus every leaf visits every hole position (rotation) plus
    seeded random ones; assignments that are unhashable where hashing is
    needed are skipped."""
    n = holes(skel)
    out = []
    seen = set()
    tries = 0
    off = rnd.randrange(len(leaves))
    while len(out) < count and tries < count * 20:
        tries += 1
        if tries <= count:
            pick = [leaves[(off + tries * 7 + j * 3) % len(leaves)] for j in range(n)]
        else:
            pick = [rnd.choice(leaves) for _ in range(n)]
        src = fill_holes(skel, pick)
        if src in seen or not hashable_ok(src):
            continue
        seen.add(src)
        out.append(src)
    return out


def corpus(tier, seed):
    """[(name, source)]"""
    rnd = random.Random(seed * 1009 + 1)
    out = []
    for lf in LEAVES:
        out.append(('leaf:' + lf[:24], lf))
    per = 1 if tier == 'quick' else 3
    for sk in SKELETONS:
        if holes(sk) == 0:
            out.append(('sk:' + sk, sk))
            continue
        for src in rotating_assignments(sk, SHORT_LEAVES, per, rnd):
            out.append(('sk:' + sk + ':' + src[:40], src))
    # long strings in every context
    QUICK_LONG = {
        LONG_STR: ['_', "[_, 'x']", "{'k': _}"], LONG_BYTES: ['_', '{_: 1}'],
        LONG_STR_QUOTES: ['_', "[_, 'x']"], LONG_BYTES_QUOTES: ['(_,)'], LONG_BYTES_PUNCT: ['_'],
        LONG_STR_QUOTES2: ["{'k': [_]}"], LONG_BYTES_HIGH: ['[_]'], LONG_STR_NOSPACE: ["[_, 'x']"],
        LONG_STR_PUNCT: ['_'], LONG_BYTES_BIN: ['[_]'],
    }
    for lf in (LONG_STR, LONG_BYTES, LONG_STR_NOSPACE, LONG_STR_PUNCT, LONG_BYTES_BIN,
               LONG_STR_QUOTES, LONG_STR_QUOTES2, LONG_BYTES_QUOTES, LONG_BYTES_PUNCT, LONG_BYTES_HIGH):
        for sk in ('_', '[_]', "[_, 'x']", "{_: 1}", "{'k': _}", "(_,)", "{'k': [_]}"):
            if tier == 'quick' and sk not in QUICK_LONG.get(lf, ()):
                continue
            out.append(('long:' + sk + ':' + lf[:12], fill_holes(sk, [lf])))
    for src in SORTED_DICTS:
        out.append(('sorted:' + src[:40], src))
    for src in CONFUSABLE:
        out.append(('confusable:' + src[:40], src))
    if tier == 'thorough':
        # larger random trees (may end INCOMPLETE)
        for k in range(40):
            out.append(('rand:%d' % k, random_tree(rnd, 3)))
    return out


def random_tree(rnd, depth):
    if depth == 0 or rnd.random() < 0.3:
        return rnd.choice(SHORT_LEAVES)
    kind = rnd.choice(['list', 'tuple', 'dict', 'set', 'frozenset', 'list', 'dict'])
    n = rnd.choice([0, 1, 2, 3])
    if kind == 'list':
        return '[' + ', '.join(random_tree(rnd, depth - 1) for _ in range(n)) + ']'
    if kind == 'tuple':
        items = [random_tree(rnd, depth - 1) for _ in range(n)]
        return '(' + ', '.join(items) + (',' if n == 1 else '') + ')'
    hash_leaves = [x for x in SHORT_LEAVES]
    if kind == 'dict':
        keys = rnd.sample(hash_leaves, n)
        return '{' + ', '.join('%s: %s' % (k, random_tree(rnd, depth - 1)) for k in keys) + '}'
    els = rnd.sample(hash_leaves, n)
    if kind == 'set':
        return ('{' + ', '.join(els) + '}') if n else 'set()'
    return 'frozenset({' + ', '.join(els) + '})' if n else 'frozenset()'


ATOM_SKELETONS = [
    '[A0, A1]', '[A0, A1, A2]', '(A0,)', '{A0: A1}', '{A0: A1, A2: A3}',
    '[A0, {A1: (A2,)}]', '{A0: [A1, A2], A3: A4}', '[[A0, A1], [A2, A3]]',
    '{A0}', 'frozenset({A0})', '(A0, [A1, (A2, A3)])', '{A0: {A1: A2}}',
    '[A0, [A1, [A2, [A3]]]]', '{A0: A1, A2: A3, A4: A0}',
]
