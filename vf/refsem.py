"""Reference semantics of the document algebra (DESIGN.md section 3).

Written independently of prettyprinter/layout.py: a recursive denotation over
the *un-normalised* shape the public combinators were given, used as a
backtracking matcher against the SDoc stream the engine emitted.

Shapes are nested tuples:

  ('t', k)            text leaf number k (a symbolic str of length >= 1)
  ('s', 'lit')        concrete text ('' allowed)
  ('nil',)
  ('cat', [d, ...])
  ('nest', off, d)    off = ('v', j) symbolic offset number j | ('c', n)
  ('grp', d)
  ('line',) ('softline',) ('hardline',)
  ('fc', broken, flat)
  ('ab', d)
  ('fill', [d, ...])
  ('align', d)
  ('hang', off, d)
  ('ann', tagno, d)   annotation number tagno
  ('sh', key, d)      a shared sub-document: every occurrence with the same key
                      is the very same Doc object (d must be identical)

All arithmetic on text lengths, offsets, widths may be symbolic (CrossHair);
all structural decisions use concrete facts only.
"""
from crosshair.tracers import NoTracing

from prettyprinter import doc as D
from prettyprinter.sdoctypes import SLine, SAnnotationPush, SAnnotationPop

F = 1
B = 0


# --------------------------------------------------------------------------
# building the real document through the public combinators

def build(shape, leaves, offs, anns, _shared=None):
    if _shared is None:
        _shared = {}
    kind = shape[0]
    if kind == 'sh':
        if shape[1] not in _shared:
            _shared[shape[1]] = build(shape[2], leaves, offs, anns, _shared)
        return _shared[shape[1]]
    if kind == 't':
        return leaves[shape[1]]
    if kind == 's':
        return shape[1]
    if kind == 'nil':
        return D.NIL
    if kind == 'cat':
        return D.concat([build(c, leaves, offs, anns, _shared) for c in shape[1]])
    if kind == 'nest':
        return D.nest(_off(shape[1], offs), build(shape[2], leaves, offs, anns, _shared))
    if kind == 'grp':
        return D.group(build(shape[1], leaves, offs, anns, _shared))
    if kind == 'line':
        return D.LINE
    if kind == 'softline':
        return D.SOFTLINE
    if kind == 'hardline':
        return D.HARDLINE
    if kind == 'fc':
        return D.flat_choice(
            when_broken=build(shape[1], leaves, offs, anns, _shared),
            when_flat=build(shape[2], leaves, offs, anns, _shared))
    if kind == 'ab':
        return D.always_break(build(shape[1], leaves, offs, anns, _shared))
    if kind == 'fill':
        return D.fill([build(c, leaves, offs, anns, _shared) for c in shape[1]])
    if kind == 'align':
        return D.align(build(shape[1], leaves, offs, anns, _shared))
    if kind == 'hang':
        return D.hang(_off(shape[1], offs), build(shape[2], leaves, offs, anns, _shared))
    if kind == 'ann':
        return D.annotate(anns[shape[1]], build(shape[2], leaves, offs, anns, _shared))
    raise ValueError(shape)


def _off(o, offs):
    return offs[o[1]] if o[0] == 'v' else o[1]


def strip_annotations(shape):
    kind = shape[0]
    if kind == 'sh':
        return ('sh', shape[1], strip_annotations(shape[2]))
    if kind == 'ann':
        return strip_annotations(shape[2])
    if kind in ('cat', 'fill'):
        return (kind, [strip_annotations(c) for c in shape[1]])
    if kind in ('nest', 'hang'):
        return (kind, shape[1], strip_annotations(shape[2]))
    if kind in ('grp', 'ab', 'align'):
        return (kind, strip_annotations(shape[1]))
    if kind == 'fc':
        return ('fc', strip_annotations(shape[1]), strip_annotations(shape[2]))
    return shape


def shape_stats(shape):
    """(#nodes, #leaves('t'), #offset vars, #annotation tags, kinds)"""
    nodes = 0
    leaves = set()
    offv = set()
    tags = set()
    kinds = set()

    def walk(s):
        nonlocal nodes
        nodes += 1
        kinds.add(s[0])
        k = s[0]
        if k == 't':
            leaves.add(s[1])
        elif k in ('cat', 'fill'):
            for c in s[1]:
                walk(c)
        elif k in ('nest', 'hang'):
            if s[1][0] == 'v':
                offv.add(s[1][1])
            walk(s[2])
        elif k == 'sh':
            walk(s[2])
        elif k in ('grp', 'ab', 'align'):
            walk(s[1])
        elif k == 'fc':
            walk(s[1])
            walk(s[2])
        elif k == 'ann':
            tags.add(s[1])
            walk(s[2])
    walk(shape)
    return nodes, len(leaves), len(offv), len(tags), kinds


def has_forced(shape):
    """Does the sub-tree contain a forced-break document (hardline or
    always_break) anywhere?"""
    k = shape[0]
    if k in ('hardline', 'ab'):
        return True
    if k in ('cat', 'fill'):
        return any(has_forced(c) for c in shape[1])
    if k in ('nest', 'hang', 'ann', 'sh'):
        return has_forced(shape[2])
    if k in ('grp', 'align'):
        return has_forced(shape[1])
    if k == 'fc':
        return has_forced(shape[1]) or has_forced(shape[2])
    return False


def contains_kind(shape, kinds):
    k = shape[0]
    if k in kinds:
        return True
    if k in ('cat', 'fill'):
        return any(contains_kind(c, kinds) for c in shape[1])
    if k in ('nest', 'hang', 'ann', 'sh'):
        return contains_kind(shape[2], kinds)
    if k in ('grp', 'align', 'ab'):
        return contains_kind(shape[1], kinds)
    if k == 'fc':
        return contains_kind(shape[1], kinds) or contains_kind(shape[2], kinds)
    return False


# --------------------------------------------------------------------------
# the stream as tokens

def tokenize(stream, leaves, native):
    """[(kind, value)]: 'T' leaf number (matched by identity), 'S' concrete
    text, 'L' the SLine object, 'PUSH'/'POP' the annotation value, '?'."""
    with NoTracing():
        idmap = {}
        if not native:
            for k, x in enumerate(leaves):
                idmap[id(x)] = k
        toks = []
        for x in stream:
            if isinstance(x, SLine):
                toks.append(('L', x))
            elif isinstance(x, SAnnotationPush):
                toks.append(('PUSH', x.value))
            elif isinstance(x, SAnnotationPop):
                toks.append(('POP', x.value))
            elif id(x) in idmap:
                toks.append(('T', idmap[id(x)]))
            elif type(x) is str:
                if x != '':
                    toks.append(('S', x))
            else:
                toks.append(('?', x))
        return toks


def columns(toks, leaves):
    """cols[p] = output column before token p (len n+1); symbolic sums."""
    cols = [0]
    c = 0
    for kind, v in toks:
        if kind == 'T':
            c = c + len(leaves[v])
        elif kind == 'S':
            c = c + len(v)
        elif kind == 'L':
            c = v.indent
        cols.append(c)
    return cols


def line_ends(toks, cols):
    """end[p] = column at the end of the output line token p is on."""
    n = len(toks)
    end = [None] * (n + 1)
    cur = cols[n]
    end[n] = cur
    for p in range(n - 1, -1, -1):
        if toks[p][0] == 'L':
            # the SLine token starts a new line; positions before it end here
            end[p] = cur           # the SLine itself: belongs to the new line
            cur = cols[p]
        else:
            end[p] = cur
    # fix: for an SLine token at p, tokens before p end at cols[p]
    # (handled by assigning cur = cols[p] after visiting p)
    return end


def plain_text(toks, leaves):
    out = []
    for kind, v in toks:
        if kind == 'T':
            out.append(leaves[v])
        elif kind == 'S':
            out.append(v)
        elif kind == 'L':
            out.append('\n' + ' ' * v.indent)
    return ''.join(out)


# --------------------------------------------------------------------------
# the matcher

class Rest:
    """Linked list of what follows a node: (indent, mode, shape)."""
    __slots__ = ('ind', 'mode', 'shape', 'next')

    def __init__(self, ind, mode, shape, nxt):
        self.ind = ind
        self.mode = mode
        self.shape = shape
        self.next = nxt


class Matcher:
    """Decides whether ``toks`` is a member of the layout set of ``shape``.

    prefer          B or F: which mode is tried first for groups / fill items
    strict_forced   a group matched flat must not render a line break or an
                    always_break (C04-c).  'raw-ok' tolerates only line breaks
                    that come from a raw HARDLINE node; False drops the rule.
                    (forced = (other forced events, raw hardlines) so far)
    ab_flat_in_fill accept always_break content laid out flat when the
                    always_break is a direct fill item (classification only)
    check_indent    SLine.indent must equal the sum of nest/align offsets
    group_ok        optional callback(mode, shape, ind, pos, pos2, rest) -> bool
                    (width rules of C05 / C06), part of the existential match
    """

    def __init__(self, toks, cols, leaves, offs, anns, native,
                 prefer=F, strict_forced=True, ab_flat_in_fill=False,
                 check_indent=True, group_ok=None):
        self.toks = toks
        self.n = len(toks)
        self.cols = cols
        self.leaves = leaves
        self.offs = offs
        self.anns = anns
        self.native = native
        self.order = (F, B) if prefer == F else (B, F)
        self.strict_forced = strict_forced
        self.ab_flat_in_fill = ab_flat_in_fill
        self.check_indent = check_indent
        self.group_ok = group_ok
        self.decisions = None

    def run(self, shape):
        self.trail = []
        ok = self.m(shape, B, 0, 0, (0, 0), None,
                    lambda p, f: p == self.n)
        return ok

    # k(pos, forced) -> bool
    def m(self, s, mode, ind, pos, forced, rest, k):
        kind = s[0]
        toks = self.toks
        if kind == 't':
            if pos >= self.n:
                return False
            tk, tv = toks[pos]
            if tk == 'T':
                if tv != s[1]:
                    return False
            elif tk == 'S' and self.native:
                if tv != self.leaves[s[1]]:
                    return False
            else:
                return False
            return k(pos + 1, forced)
        if kind == 's':
            if s[1] == '':
                return k(pos, forced)
            return self._lit(s[1], pos, forced, k)
        if kind == 'nil':
            return k(pos, forced)
        if kind == 'sh':
            return self.m(s[2], mode, ind, pos, forced, rest, k)
        if kind == 'cat':
            return self._seq(s[1], 0, mode, ind, pos, forced, rest, k)
        if kind == 'nest':
            return self.m(s[2], mode, ind + _off(s[1], self.offs), pos, forced,
                          rest, k)
        if kind == 'grp':
            child = s[1]
            for choice in self.order:
                if choice == F:
                    def kf(p2, f2, pos=pos, forced=forced):
                        if self.strict_forced == 'raw-ok':
                            if f2[0] != forced[0]:
                                return False
                        elif self.strict_forced and f2 != forced:
                            return False
                        if self.group_ok is not None and not self.group_ok(
                                F, s, ind, pos, p2, rest, f2 != forced):
                            return False
                        return k(p2, f2)
                    if self.m(child, F, ind, pos, forced, rest, kf):
                        return True
                else:
                    def kb(p2, f2, pos=pos, forced=forced):
                        if self.group_ok is not None and not self.group_ok(
                                B, s, ind, pos, p2, rest, f2 != forced):
                            return False
                        return k(p2, f2)
                    if self.m(child, B, ind, pos, forced, rest, kb):
                        return True
            return False
        if kind == 'line':
            if mode == F:
                return self._lit(' ', pos, forced, k)
            return self._hard(ind, pos, forced, k, False)
        if kind == 'softline':
            if mode == F:
                return k(pos, forced)
            return self._hard(ind, pos, forced, k, False)
        if kind == 'hardline':
            return self._hard(ind, pos, forced, k, True)
        if kind == 'fc':
            return self.m(s[2] if mode == F else s[1], mode, ind, pos, forced,
                          rest, k)
        if kind == 'ab':
            return self.m(s[1], B, ind, pos, (forced[0] + 1, forced[1]), rest, k)
        if kind == 'fill':
            return self._fill(s[1], 0, mode, ind, pos, forced, rest, k)
        if kind == 'align':
            return self.m(s[1], mode, self.cols[pos], pos, forced, rest, k)
        if kind == 'hang':
            return self.m(s[2], mode, self.cols[pos] + _off(s[1], self.offs),
                          pos, forced, rest, k)
        if kind == 'ann':
            if pos >= self.n:
                return False
            tk, tv = toks[pos]
            tag = self.anns[s[1]]
            if tk != 'PUSH' or tv is not tag:
                return False

            def ka(p2, f2):
                if p2 >= self.n:
                    return False
                tk2, tv2 = toks[p2]
                if tk2 != 'POP' or tv2 is not tag:
                    return False
                return k(p2 + 1, f2)
            return self.m(s[2], mode, ind, pos + 1, forced, rest, ka)
        raise ValueError(s)

    def _lit(self, lit, pos, forced, k):
        if pos >= self.n:
            return False
        tk, tv = self.toks[pos]
        if tk != 'S' or tv != lit:
            return False
        return k(pos + 1, forced)

    def _hard(self, ind, pos, forced, k, raw):
        if pos >= self.n:
            return False
        tk, tv = self.toks[pos]
        if tk != 'L':
            return False
        if self.check_indent and tv.indent != ind:
            return False
        if raw:
            return k(pos + 1, (forced[0], forced[1] + 1))
        return k(pos + 1, (forced[0] + 1, forced[1]))

    def _seq(self, items, i, mode, ind, pos, forced, rest, k):
        if i == len(items):
            return k(pos, forced)
        nrest = rest
        if self.group_ok is not None:
            # what follows item i: the remaining items, then the outer rest
            for j in range(len(items) - 1, i, -1):
                nrest = Rest(ind, mode, items[j], nrest)
        return self.m(
            items[i], mode, ind, pos, forced, nrest,
            lambda p2, f2: self._seq(items, i + 1, mode, ind, p2, f2, rest, k))

    def _fill(self, items, i, mode, ind, pos, forced, rest, k):
        if i == len(items):
            return k(pos, forced)
        item = items[i]
        nxt = (lambda p2, f2:
               self._fill(items, i + 1, mode, ind, p2, f2, rest, k))
        if item[0] == 'ab' and self.ab_flat_in_fill:
            # classification of a known defect: Fill.normalize strips the
            # always_break of a direct item, which may then be laid out flat
            for choice in self.order:
                if self.m(item[1], choice, ind, pos, forced, None, nxt):
                    return True
            return False
        for choice in self.order:
            if self.m(item, choice, ind, pos, forced, None, nxt):
                return True
        return False


# --------------------------------------------------------------------------
# independent recomputation of "does it fit" (C06)

class Unmodelled(Exception):
    pass


def flat_lookahead(rest_first, page_width, min_nesting, smart, leaves, offs, start_col=None):
    """Width needed on the current line by the triples in ``rest_first``
    (a Python list of (ind, mode, shape), first element first) followed
    lazily by nothing else.  Returns (first_line_width, forced_seen,
    later_overflow) where forced_seen means an always_break document starts
    before the first certain line break, and later_overflow (smart only) that
    some following deeper line would exceed the page width.

    Mirrors only what the statement of C06 allows as excuses: following groups
    are taken flat, lookahead ends at the first certain line break (fast) or
    at the first line break at or below the group's nesting level (smart).
    """
    width = 0
    first_line = None          # width of the first line once it ended
    stack = list(reversed(rest_first))
    cur = 0                    # width on the current lookahead line
    base = start_col           # output column at which the current lookahead line started
    budget = None              # page budget for continuation lines
    later_overflow = False
    while stack:
        ind, mode, s = stack.pop()
        kind = s[0]
        if kind == 't':
            cur = cur + len(leaves[s[1]])
        elif kind == 's':
            cur = cur + len(s[1])
        elif kind == 'nil':
            pass
        elif kind in ('cat', 'fill'):
            for c in reversed(s[1]):
                stack.append((ind, mode, c))
        elif kind == 'nest':
            stack.append((None if ind is None else ind + _off(s[1], offs), mode, s[2]))
        elif kind == 'grp':
            stack.append((ind, F, s[1]))
        elif kind in ('line', 'softline', 'hardline'):
            if mode == F and kind == 'line':
                cur = cur + 1
            elif mode == F and kind == 'softline':
                pass
            else:
                # a certain line break
                if first_line is None:
                    first_line = cur
                else:
                    if cur > budget:
                        later_overflow = True
                if smart and ind is None:
                    # below an align/hang whose column is unknown (no start column given)
                    raise Unmodelled('line break below align/hang under the smart strategy')
                if smart and ind > min_nesting:
                    budget = page_width - ind
                    cur = 0
                    base = ind
                else:
                    return first_line, False, later_overflow
        elif kind == 'fc':
            stack.append((ind, mode, s[2] if mode == F else s[1]))
        elif kind == 'ab':
            if first_line is None:
                return cur, True, later_overflow
            # an always_break met on a continuation line also makes the smart
            # predicate fail
            return first_line, True, later_overflow
        elif kind in ('ann', 'sh'):
            stack.append((ind, mode, s[2]))
        elif kind == 'align':
            # an align re-bases the indentation of later breaks to the current
            # *output* column (exact semantics; the engine's own lookahead uses a
            # smaller, relative column, so it never sees more overflow than this)
            col = None if base is None else base + cur
            stack.append((col, mode, s[1]))
        elif kind == 'hang':
            col = None if base is None else base + cur + _off(s[1], offs)
            stack.append((col, mode, s[2]))
        else:
            raise ValueError(s)
    if first_line is None:
        first_line = cur
    else:
        if cur > budget:
            later_overflow = True
    return first_line, False, later_overflow


def rest_to_list(first, rest):
    out = [first]
    r = rest
    while r is not None:
        out.append((r.ind, r.mode, r.shape))
        r = r.next
    return out
