"""CrossHair (z3) driver: path-exhaustive symbolic execution of one harness.

A harness is an ordinary Python function with type-annotated parameters and a
PEP316 docstring (``pre:`` / ``post:`` lines).  ``analyze`` returns a verdict:

  CONFIRMED   every path explored, every branch decided by z3 -> the
              postcondition holds for all parameter values inside ``pre``
  REFUTED     z3 produced a model violating the postcondition (``args``)
  INCOMPLETE  time budget exhausted / z3 ``unknown`` / unsupported operation
  VACUOUS     precondition could not be met (reported as inconclusive)
  ERROR       the harness raised (``message``); a REFUTED-like verdict that
              still carries concrete ``args``
"""
import ast
import sys
import time
from collections import Counter

import z3

import crosshair.core
from crosshair.core_and_libs import (  # noqa: F401  (registers libimpl patches)
    MessageType,
    analyze_function,
    run_checkables,
)
from crosshair.options import AnalysisKind, AnalysisOptionSet

# CrossHair may replace calls to contract-bearing functions (its own ``repr``
# patch carries ``post[]: True``) by unconstrained symbolic return values.
# That is unsound for our purpose (we want the real code executed): disable.
crosshair.core.consider_shortcircuit = lambda *a, **k: None

Z3STATS = {'queries': 0, 'seconds': 0.0, 'unknown': 0}


def _instrument_z3():
    if getattr(z3.Solver, '_vf_wrapped', False):
        return
    orig = z3.Solver.check

    def check(self, *a, **k):
        t0 = time.perf_counter()
        r = orig(self, *a, **k)
        Z3STATS['seconds'] += time.perf_counter() - t0
        Z3STATS['queries'] += 1
        if str(r) == 'unknown':
            Z3STATS['unknown'] += 1
        return r
    z3.Solver.check = check
    z3.Solver._vf_wrapped = True


_instrument_z3()


def parse_call_args(message, fn):
    """Extract the concrete arguments from a CrossHair message such as
    ``false when calling h(1, 'a', w=3) (which returns False)``."""
    marker = 'when calling '
    i = message.find(marker)
    if i < 0:
        return None
    text = message[i + len(marker):]
    # balance parentheses to find the end of the call expression
    start = text.find('(')
    depth = 0
    end = None
    in_str = None
    j = start
    while j < len(text):
        ch = text[j]
        if in_str:
            if ch == '\\':
                j += 1
            elif ch == in_str:
                in_str = None
        elif ch in '"\'':
            in_str = ch
        elif ch == '(':
            depth += 1
        elif ch == ')':
            depth -= 1
            if depth == 0:
                end = j
                break
        j += 1
    if end is None:
        return None
    call_src = 'f' + text[start:end + 1]
    try:
        node = ast.parse(call_src, mode='eval').body
        import inspect
        params = list(inspect.signature(fn).parameters)
        out = {}
        for k, a in enumerate(node.args):
            out[params[k]] = ast.literal_eval(a)
        for kw in node.keywords:
            out[kw.arg] = ast.literal_eval(kw.value)
        return out
    except Exception:
        return None


def analyze(fn, per_condition_timeout=60.0, per_path_timeout=20.0):
    stats = Counter()
    opts = AnalysisOptionSet(
        analysis_kind=[AnalysisKind.PEP316],
        per_condition_timeout=per_condition_timeout,
        per_path_timeout=per_path_timeout,
        report_all=True,
        stats=stats,
        max_uninteresting_iterations=sys.maxsize,
    )
    q0, s0, u0 = Z3STATS['queries'], Z3STATS['seconds'], Z3STATS['unknown']
    t0 = time.perf_counter()
    checkables = analyze_function(fn, opts)
    if not checkables:
        return {'verdict': 'ERROR', 'message': 'no conditions found on harness',
                'paths': 0, 'args': None, 'wall_s': 0.0,
                'z3_queries': 0, 'z3_seconds': 0.0, 'z3_unknown': 0}
    msgs = run_checkables(checkables)
    wall = time.perf_counter() - t0
    res = {
        'paths': int(stats.get('num_paths', 0)),
        'wall_s': round(wall, 3),
        'z3_queries': Z3STATS['queries'] - q0,
        'z3_seconds': round(Z3STATS['seconds'] - s0, 3),
        'z3_unknown': Z3STATS['unknown'] - u0,
        'args': None,
        'message': '',
    }
    verdict = None
    for m in msgs:
        if m.state in (MessageType.POST_FAIL, MessageType.EXEC_ERR,
                       MessageType.POST_ERR):
            verdict = 'REFUTED' if m.state == MessageType.POST_FAIL else 'ERROR'
            res['message'] = m.message
            res['args'] = parse_call_args(m.message, fn)
            res['traceback'] = (m.traceback or '')[-1500:]
            break
    if verdict is None:
        states = [m.state for m in msgs]
        if states and all(s == MessageType.CONFIRMED for s in states):
            verdict = 'CONFIRMED'
        elif any(s == MessageType.PRE_UNSAT for s in states):
            verdict = 'VACUOUS'
            res['message'] = '; '.join(m.message for m in msgs)
        else:
            verdict = 'INCOMPLETE'
            res['message'] = '; '.join(
                '%s: %s' % (m.state.name, m.message) for m in msgs)
    res['verdict'] = verdict
    return res
