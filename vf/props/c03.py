"""C03 - width, ribbon and indent change only the layout, never the content.

Family 'ast': any printable value (built-ins, commented values, stdlib types,
  subclass instances, user types through pretty_call); (width, ribbon)
  symbolic, indent enumerated; on every path the output parses to the syntax
  tree obtained at unbounded width, and every line indent is a non-negative
  multiple of the indent setting.
Family 'indent': atom skeletons with the indent setting itself symbolic
  (1..8) together with atom widths and page width; every SLine.indent is
  proved to be k * indent.
"""
import warnings

from crosshair.tracers import NoTracing

from vf import base, pfbase, trees, gen_values
from vf.pfbase import PP, SLine
from vf.trees import L

CASE = None


def _install(case):
    global CASE
    CASE = case
    pfbase.install(case)


def build_value(params):
    if 'spec' in params:
        return trees.build(params['spec'], True)
    from vf.props.c07 import stdlib_ns
    from vf.props.c02 import register_box
    register_box()
    return eval(params['src'], stdlib_ns())


class AstCase(pfbase.CfgCase):
    def __init__(self, params):
        super().__init__(params)
        self.value = build_value(params)
        self.label = params.get('src') or trees.show(params['spec'])
        self.indent = params.get('indent', 4)
        with warnings.catch_warnings():
            warnings.simplefilter('ignore')
            self.ref_text = pfbase.native_pformat(self.value, 10 ** 6, 10 ** 6, indent=self.indent)
            # width = ribbon = 10**6 is itself a configuration: text that does not
            # parse there is reported as a violation (for every explored w, rw)
            self.ref_error = None
            try:
                self.ref_dump = pfbase.ast_dump(self.ref_text)
            except SyntaxError as e:
                self.ref_dump = None
                self.ref_error = str(e)

    def run(self, w, rw):
        if self.ref_error is not None:
            return self.fail('C03:output-not-an-expression',
                             lambda: 'value=%s indent=%d width=ribbon_width=10**6\noutput:\n%s\n%s' % (
                                 self.label, self.indent, self.ref_text, self.ref_error))
        with warnings.catch_warnings():
            warnings.simplefilter('ignore')
            try:
                warm = self.params.get('warmup_indent')
                pfbase.KEEP_STATE[0] = False
                if warm:
                    pfbase.fresh_state()
                    pfbase.KEEP_STATE[0] = True       # the observed print must see what the warm-up left behind
                    # the same value printed under another indent setting first
                    with NoTracing():
                        pfbase.native_pformat(self.value, 30, 30, indent=warm)
                        pfbase.native_pformat(self.value, 79, 71, indent=warm)
                if self.native:
                    text = pfbase.native_pformat(self.value, w, rw, indent=self.indent)
                    indents = [len(l) - len(l.lstrip(' ')) for l in text.split('\n')[1:] if l.strip()]
                else:
                    text = pfbase.ptext(self.value, w, rw, indent=self.indent)
                    with NoTracing():
                        indents = [len(l) - len(l.lstrip(' ')) for l in text.split('\n')[1:] if l.strip()]
            except Exception as e:
                exc = type(e).__name__
                return self.fail('C03:pformat-raises-' + exc, lambda: '%s: %s' % (exc, e))
        describe = lambda: 'value=%s indent=%d w=%r rw=%r\noutput:\n%s\nreference (unbounded width):\n%s' % (
            self.label, self.indent, w, rw, text, self.ref_text)
        for i in indents:
            if i < 0 or i % self.indent != 0:
                return self.fail('C03:line-indent-not-multiple-of-indent', describe)
        with NoTracing():
            try:
                dump = pfbase.ast_dump(text)
            except SyntaxError:
                return self.fail('C03:output-not-an-expression', describe)
            if dump != self.ref_dump:
                return self.fail('C03:syntax-tree-depends-on-configuration', describe)
            return True


class IndentCase(pfbase.AtomCase):
    MAXLEN = 20

    def pre(self, texts, ind, w):
        if not (1 <= ind and ind <= 8):
            return False
        return super().pre(texts, w, w)

    def run(self, texts, ind, w):
        if self.native:
            texts = ['pqrst'[k] + '_' * (len(t) - 1) for k, t in enumerate(texts)]
        self.bind(texts)
        try:
            stream = pfbase.sdocs(self.value, w, w, self.native, indent=ind, traced_printers=True)
        except Exception as e:
            exc = type(e).__name__
            return self.fail('C03:pformat-raises-' + exc, lambda: '%s: %s' % (exc, e))
        describe = lambda: 'skeleton=%s indent=%r w=%r\nstream=%r' % (self.src, ind, w, stream)
        for x in stream:
            if isinstance(x, SLine):
                found = False
                for k in range(0, 9):
                    if x.indent == k * ind:
                        found = True
                        break
                if not found:
                    return self.fail('C03:line-indent-not-multiple-of-indent', describe)
        return True

    def run_native(self, args):
        return self.run([args['a'], args['b'], args['c'], 'x', 'x'], args['ind'], args['w'])


def _pre_i(a, b, c, ind, w):
    return CASE.pre([a, b, c, 'x', 'x'], ind, w)


def h_indent(a: str, b: str, c: str, ind: int, w: int) -> bool:
    """
    pre: _pre_i(a, b, c, ind, w)
    post: _
    """
    return CASE.run([a, b, c, 'x', 'x'], ind, w)


def h_indent_twin(a: str, b: str, c: str, ind: int, w: int) -> bool:
    """
    pre: _pre_i(a, b, c, ind, w)
    post: False
    """
    CASE.run([a, b, c, 'x', 'x'], ind, w)
    return True


FAMILIES = {
    'ast': pfbase.cfg_family('ast', AstCase),
    'indent': base.Family('indent', h_indent, h_indent_twin, IndentCase, _install),
}


def run_case(task):
    return base.generic_run_case(FAMILIES, task)


def replay_case(task):
    return base.generic_replay_case(FAMILIES, task)


COMMENTED = [
    ['c', 'top level note', ['list', [L('1'), L('2')]]],
    ['list', [['c', 'first element', L('1')], L("'two words'")]],
    ['dict', [[L("'k'"), ['c', 'value note', ['list', [L('1'), L('2')]]]], [L('2'), L('3')]]],
    ['tc', 'and more', ['list', [L('1'), ['tuple', [L('2')]]]]],
    ['box', [['c', 'argument', L('1')]], [['tag', ['c', 'keyword', L("'x'")]]]],
    ['dict', [[['c', 'key note', L('1')], L('2')]]],
    ['tuple', [['c', 'sole', L('1')]]],
    # only the last argument / element / value carries the comment
    ['box', [L('1')], [['tag', ['c', 'keyword', L("'x'")]]]],
    ['box', [['c', 'only argument', L('1')]], []],
    ['list', [L('1'), ['c', 'last element', L('2')]]],
    ['dict', [[L('1'), L('2')], [L('3'), ['c', 'last value', L('4')]]]],
    ['list', [['box', [L('0')], [['tag', ['c', 'nested call, last', ['tuple', [L('1'), L('2')]]]]]], L('3')]],
]


def value_params(tier, seed):
    from vf import stdvals
    from vf.props import c08
    out = []
    corpus = gen_values.corpus('quick', seed)
    step = 3 if tier == 'quick' else 1
    for i, (name, src) in enumerate(corpus):
        if 'nan' in src:
            continue
        if i % step == 0:
            out.append(('builtin:' + name, {'src': src}))
    for i, spec in enumerate(COMMENTED):
        out.append(('commented:%d' % i, {'spec': spec}))
    inst = stdvals.instances()
    step = 4 if tier == 'quick' else 1
    for i, (kind, src) in enumerate(inst):
        if i % step == 0:
            out.append(('stdlib:%s:%s' % (kind, src[:40]), {'src': '[0, %s]' % src}))
    n = 0
    for b in ('list', 'dict', 'str', 'bytes', 'int', 'float', 'tuple', 'set', 'frozenset'):
        for flavour in ('Plain', 'Repr'):
            for bv in c08.BASE_VALUES[b][1:4:2]:
                n += 1
                if tier == 'quick' and n % 3:
                    continue
                out.append(('subclass:%s%s:%s' % (flavour, b, bv[:16]),
                            {'src': "{'k': vf.subcls.%s%s(%s)}" % (flavour, b.capitalize(), bv)}))
    out.append(('call:nested', {'src': "vf.props.c02.Box([vf.props.c02.Box(1, tag='two words'), {'a': vf.props.c02.Box((1,))}])"}))
    out.append(('call:kw-long', {'src': "vf.props.c02.Box('%s', tag=[1, 2, 3])" % ('word ' * 12)}))
    out.append(('longkey', {'src': "{'%s': 1, 2: ['%s']}" % ('key words ' * 9, 'value words ' * 8)}))
    words = 'word ' * 14
    out.append(('call:kw-long-str', {'src': "vf.props.c02.Box(1, tag='%s')" % words}))
    out.append(('namespace:long-str', {'src': "types.SimpleNamespace(name='%s', x=1)" % words}))
    out.append(('namedtuple:long-str', {'src': "vf.stdvals.Point(1, '%s')" % words}))
    out.append(('call:kw-long-bytes', {'src': "[vf.props.c02.Box(0, tag=b'%s')]" % words}))
    out.append(('structtime', {'src': 'time.gmtime(0)'}))
    out.append(('function', {'src': '[sorted, vf.stdvals.fn, dict, collections.OrderedDict]'}))
    out.append(('call:function-last', {'src': 'vf.props.c02.Box(1, tag=sorted)'}))
    out.append(('call:class-sole', {'src': '[vf.props.c02.Box(dict), functools.partial(vf.stdvals.fn)]'}))
    return out


THOROUGH_KEEP = {'*': 0.45}      # see vf/runner.py (time: about 10 minutes per thorough tier)


def cases(tier, seed):
    out = []
    for i, (name, p) in enumerate(value_params(tier, seed)):
        indents = [4] if tier == 'quick' else [4, 1, 7]
        if tier == 'quick' and i % 4 == 0:
            indents = [4, 1 + (i // 4) % 8]
        for ind in dict.fromkeys(indents):
            for sl in (['page'] if tier == 'quick' or ind != 4 else ['page', 'ribbon']):
                out.append({'name': '%s|%s|i%d' % (name, sl, ind), 'family': 'ast',
                            'params': dict(p, slice=sl, indent=ind),
                            'budget': 60.0 if tier == 'quick' else 240.0, 'path_timeout': 30.0,
                            'twin': i == 0 and ind == 4})
    # the same value printed before under a different indent (per-process caches)
    for name, src in (('longkey', "{'%s': 1, 2: ['%s']}" % ('key words ' * 4, 'value words ' * 3)),
                      ('nested-strs', "[{'k': '%s'}, ('%s',)]" % ('alpha beta ' * 4, 'gamma delta ' * 3))):
        for warm, ind in ((2, 4), (4, 3), (8, 1)):
            # widths at which the strings are split (the sub-range keeps the case small)
            for sl in (('page:8-34',) if tier == 'quick' else ('page:8-34', 'page:35-80', 'ribbon:5-40')):
                out.append({'name': 'warm:%s|%s|i%d-after-i%d' % (name, sl, ind, warm), 'family': 'ast',
                            'params': {'src': src, 'slice': sl, 'indent': ind, 'warmup_indent': warm},
                            'budget': 90.0 if tier == 'quick' else 300.0, 'path_timeout': 30.0})
    sk = ['[A0, A1]', '{A0: [A1, A2]}', '[A0, (A1, {A2: A0})]', '[[[A0]], A1]', '{A0: A1, A2: A0, A1: A2}']
    for j, s in enumerate(sk if tier == 'thorough' else sk[:3]):
        out.append({'name': 'indent-symbolic:%s' % s, 'family': 'indent',
                    'params': {'skeleton': s, 'slice': 'page'},
                    'budget': 150.0 if tier == 'quick' else 600.0, 'path_timeout': 40.0, 'twin': j == 0})
    return out


def evidence(tier, seed, tasks, results):
    return {
        'coverage': {
            'bounds': {
                'width': '1..200 symbolic (page slice)' + ('; ribbon slice at indent 4' if tier == 'thorough' else ''),
                'indent': 'enumerated 1..8 in family ast (see case names); symbolic 1..8 in family indent',
                'values': 'built-in corpus, commented values, one or more instances of every bundled stdlib type, subclass instances, pretty_call user types, struct_time, functions/classes',
                'atom widths (family indent)': '1..20 symbolic',
            },
            'outside_the_claim': 'values whose output is not parseable (recursion markers, repr fallbacks)',
        },
        'assumptions': ['reference = ast of pformat at width = ribbon = 10**6 (computed natively per case)',
                        'lemma L1; CrossHair; z3; CPython ast'],
    }
