"""C13 - cycles are cut exactly at back-references; shared substructure prints in full.

Symbolic: the adjacency matrix of the object graph (n*n booleans; each path is
one graph - solver-driven enumeration), page width for 2-node graphs.
Enumerated: node kinds (list, dict, tuple-holding-list).
"""
import re
import warnings

from crosshair.tracers import NoTracing

import prettyprinter as PKG
from vf import base, pfbase

CASE = None


def _install(case):
    global CASE
    CASE = case


MARKER = re.compile(r'<Recursion on (\w+) with id=(\d+)>')


def make_graph(kinds, adj, unlabelled=False):
    """nodes[i] is a container of kind kinds[i] holding the int i*10+5 and its
    successors in index order.  ``unlabelled``: no int leaf, so that distinct
    nodes can be equal (and a node without successors is an empty container)."""
    n = len(kinds)
    nodes = []
    inner = []
    for i, k in enumerate(kinds):
        if unlabelled:
            o = [] if k == 'list' else {}
            nodes.append(o)
            inner.append(o)
        elif k == 'list':
            o = [i * 10 + 5]
            nodes.append(o)
            inner.append(o)
        elif k == 'ulist':
            o = UList([i * 10 + 5])
            nodes.append(o)
            inner.append(o)
        elif k == 'dict':
            o = {'leaf': i * 10 + 5}
            nodes.append(o)
            inner.append(o)
        else:  # tuple holding a list
            l = [i * 10 + 5]
            nodes.append((l,))
            inner.append(l)
    for i in range(n):
        for j in range(n):
            if adj[i][j]:
                if kinds[i] == 'dict':
                    inner[i]['n%d' % j] = nodes[j]
                else:
                    inner[i].append(nodes[j])
    return nodes


def reference_depth(kinds, adj, nodes, depth):
    """Same with a finite depth limit (list / dict nodes only: one nesting level
    per node): a node reached at level k >= depth is a placeholder and is not
    descended into; the recursion check comes first."""
    markers = []
    full = [0] * len(kinds)

    def visit(i, stack, k):
        if i in stack:
            markers.append((type(nodes[i]).__name__, id(nodes[i])))
            return
        if k >= depth:
            return
        if k + 1 < depth:
            full[i] += 1        # its int leaf is visible only one level further down
        for j in range(len(kinds)):
            if adj[i][j]:
                visit(j, stack | {i}, k + 1)
    visit(0, frozenset(), 0)
    return markers, full


def reference(kinds, adj, nodes):
    """Expected markers (in output order) and number of full printings of each
    node, from a DFS that cuts exactly where a node is reached again while it
    is still being printed."""
    markers = []
    full = [0] * len(kinds)

    def visit(i, stack):
        if i in stack:
            markers.append((type(nodes[i]).__name__, id(nodes[i])))
            return
        full[i] += 1
        for j in range(len(kinds)):
            if adj[i][j]:
                visit(j, stack | {i})
    visit(0, frozenset())
    return markers, full


class UList(list):
    """a user list subclass (its instances can be given another class later)"""


class VList(list):
    pass


class ExplodingError(Exception):
    pass


class Exploding:
    armed = False

    def __repr__(self):
        if Exploding.armed:
            raise ExplodingError('repr of a leaf fails')
        return 'PROBE'


class GraphCase(base.CaseBase):
    def __init__(self, params):
        super().__init__(params)
        self.kinds = params['kinds']
        self.n = len(self.kinds)
        self.row0 = params.get('row0')          # fixed first row (partition) or None
        self.slice = params.get('slice', 'default')
        self.traced = params.get('traced', self.n <= 2)
        self.unrelated_baseline = PKG.pformat([1, {'a': (2,)}, [3]])

    def pre(self, bits, w, rw):
        nn = self.n * self.n
        for k, b in enumerate(bits):
            if k >= nn:
                if b:
                    return False
            elif self.row0 is not None and k < self.n:
                if b != bool(self.row0[k]):
                    return False
        return pfbase.slice_pre(self.slice, w, rw)

    def run(self, bits, w, rw):
        adj = []
        for i in range(self.n):
            row = []
            for j in range(self.n):
                row.append(True if bits[i * self.n + j] else False)
            adj.append(row)
        if self.traced or self.native:
            return self.execute(adj, w, rw)
        # untraced execution needs concrete ints (slice 'default' pins them)
        with NoTracing():
            return self.execute(adj, 79, 71)

    def execute(self, adj, w, rw):
        unlabelled = bool(self.params.get('unlabelled'))
        nodes = make_graph(self.kinds, adj, unlabelled)
        root = nodes[0]
        if self.params.get('abort_first'):
            # an earlier print of the same graph that is aborted by an
            # exception in the middle of the traversal (repr of a leaf raises)
            probe = Exploding()
            for i, k in enumerate(self.kinds):
                inner = nodes[i][0] if k == 'tuple' else nodes[i]
                if k == 'dict':
                    inner['zz_probe'] = probe
                else:
                    inner.append(probe)
            Exploding.armed = True
            try:
                try:
                    PKG.pformat(root)
                except ExplodingError:
                    pass
            finally:
                Exploding.armed = False
            for i, k in enumerate(self.kinds):
                inner = nodes[i][0] if k == 'tuple' else nodes[i]
                if k == 'dict':
                    del inner['zz_probe']
                else:
                    inner.pop()
        depth = self.params.get('depth')
        if depth is None:
            want_markers, want_full = reference(self.kinds, adj, nodes)
        else:
            want_markers, want_full = reference_depth(self.kinds, adj, nodes, depth)
        describe = lambda: 'kinds=%r adjacency=%r\noutput:\n%s\nexpected markers=%r full printings=%r' % (
            self.kinds, adj, text, want_markers, want_full)
        text = '<no output>'
        try:
            with warnings.catch_warnings(record=True) as wlist:
                warnings.simplefilter('always')
                if self.native or not self.traced:
                    text = PKG.pformat(root, width=w, ribbon_width=rw, depth=depth)
                else:
                    text = pfbase.ptext(root, w, rw, traced_printers=True, depth=depth)
        except RecursionError:
            return self.fail('C13:printing-does-not-terminate', describe)
        except Exception as e:
            exc = type(e).__name__
            return self.fail('C13:pformat-raises-' + exc, lambda: describe() + '\n%s: %s' % (exc, e))
        with NoTracing():
            if wlist:
                return self.fail('C13:warning-emitted', lambda: describe() + '\n%r' % [str(x.message)[:300] for x in wlist])
            got_markers = [(t, int(i)) for t, i in MARKER.findall(text)]
            if got_markers != want_markers:
                if len(got_markers) > len(want_markers):
                    return self.fail('C13:shared-object-printed-as-recursion', describe)
                return self.fail('C13:recursion-markers-differ', describe)
            for i in range(self.n):
                if unlabelled:
                    break
                cnt = len(re.findall(r'(?<!\d)%d(?!\d)' % (i * 10 + 5), MARKER.sub('', text)))
                if cnt != want_full[i]:
                    return self.fail('C13:node-not-printed-in-full-each-time', describe)
            if unlabelled and text.count('[') + text.count('{') != sum(want_full):
                return self.fail('C13:node-not-printed-in-full-each-time', describe)
            # no residue
            try:
                again = PKG.pformat(root, width=w, ribbon_width=rw, depth=depth) if (self.native or not self.traced) else PKG.pformat(root, depth=depth)
                other = PKG.pformat([1, {'a': (2,)}, [3]])
            except Exception as e:
                return self.fail('C13:later-call-raises', lambda: repr(e))
            if (self.native or not self.traced) and again != text:
                return self.fail('C13:second-print-differs', lambda: describe() + '\nsecond:\n' + again)
            if self.params.get('reclass'):
                # the same objects (same ids) are given another class: the markers
                # must name the new type
                for o in nodes:
                    if type(o) is UList:
                        o.__class__ = VList
                try:
                    third = PKG.pformat(root)
                except Exception as e:
                    return self.fail('C13:later-call-raises', lambda: repr(e))
                want3, _ = reference(self.kinds, adj, nodes)
                got3 = [(t, int(i)) for t, i in MARKER.findall(third)]
                if got3 != want3:
                    return self.fail('C13:marker-names-stale-type',
                                     lambda: describe() + '\nafter changing the class:\n%s\nexpected markers %r' % (third, want3))
            if MARKER.findall(again) != MARKER.findall(text):
                return self.fail('C13:second-print-differs', lambda: describe() + '\nsecond:\n' + again)
            if other != self.unrelated_baseline:
                return self.fail('C13:residue-affects-other-value', lambda: other)
            return True

    def run_native(self, a):
        bits = [a['b%d' % k] for k in range(16)]
        return self.run(bits, a['w'], a['rw'])


def _pre(bits, w, rw):
    return CASE.pre(bits, w, rw)


def h_graph(b0: bool, b1: bool, b2: bool, b3: bool, b4: bool, b5: bool, b6: bool, b7: bool,
            b8: bool, b9: bool, b10: bool, b11: bool, b12: bool, b13: bool, b14: bool, b15: bool,
            w: int, rw: int) -> bool:
    """
    pre: _pre([b0, b1, b2, b3, b4, b5, b6, b7, b8, b9, b10, b11, b12, b13, b14, b15], w, rw)
    post: _
    """
    return CASE.run([b0, b1, b2, b3, b4, b5, b6, b7, b8, b9, b10, b11, b12, b13, b14, b15], w, rw)


def h_graph_twin(b0: bool, b1: bool, b2: bool, b3: bool, b4: bool, b5: bool, b6: bool, b7: bool,
                 b8: bool, b9: bool, b10: bool, b11: bool, b12: bool, b13: bool, b14: bool, b15: bool,
                 w: int, rw: int) -> bool:
    """
    pre: _pre([b0, b1, b2, b3, b4, b5, b6, b7, b8, b9, b10, b11, b12, b13, b14, b15], w, rw)
    post: False
    """
    CASE.run([b0, b1, b2, b3, b4, b5, b6, b7, b8, b9, b10, b11, b12, b13, b14, b15], w, rw)
    return True


FAMILIES = {'graph': base.Family('graph', h_graph, h_graph_twin, GraphCase, _install)}


def run_case(task):
    return base.generic_run_case(FAMILIES, task)


def replay_case(task):
    return base.generic_replay_case(FAMILIES, task)


def cases(tier, seed):
    import itertools
    out = []
    K = ['list', 'dict', 'tuple']
    # 1 and 2 nodes: every kind assignment, traced, symbolic width on 2 nodes
    for k in K:
        out.append({'name': 'n1:%s' % k, 'family': 'graph', 'params': {'kinds': [k]},
                    'budget': 60.0, 'twin': k == 'list'})
    for ks in itertools.product(K, repeat=2):
        out.append({'name': 'n2:%s' % '-'.join(ks), 'family': 'graph',
                    'params': {'kinds': list(ks)}, 'budget': 120.0})
    for ks in ([('list', 'dict')] if tier == 'quick' else list(itertools.product(K, repeat=2))):
        out.append({'name': 'n2:%s|page' % '-'.join(ks), 'family': 'graph',
                    'params': {'kinds': list(ks), 'slice': 'page'},
                    'budget': 200.0 if tier == 'quick' else 600.0})
    for ks in ([('list', 'dict'), ('tuple', 'list')] if tier == 'quick' else list(itertools.product(K, repeat=2))):
        out.append({'name': 'n2:%s:after-aborted-print' % '-'.join(ks), 'family': 'graph',
                    'params': {'kinds': list(ks), 'abort_first': True, 'traced': False}, 'budget': 120.0})
    # user list subclasses whose class is changed between two prints (same ids)
    for ks in [('ulist',), ('ulist', 'dict'), ('ulist', 'ulist')]:
        out.append({'name': 'n%d:%s:reclass' % (len(ks), '-'.join(ks)), 'family': 'graph',
                    'params': {'kinds': list(ks), 'reclass': True, 'traced': False}, 'budget': 120.0})
    # nodes without a distinguishing leaf: distinct nodes may be equal, leaves are empty containers
    for ks in [('list', 'list'), ('list', 'dict'), ('list', 'list', 'list'), ('dict', 'list', 'dict')]:
        out.append({'name': 'n%d:%s:unlabelled' % (len(ks), '-'.join(ks)), 'family': 'graph',
                    'params': {'kinds': list(ks), 'unlabelled': True, 'traced': False}, 'budget': 200.0})
    # cycles under a finite depth limit (list / dict nodes)
    for ks in [('list', 'dict'), ('dict', 'list', 'list')]:
        for d in ((3,) if tier == 'quick' else (1, 2, 3, 5)):
            out.append({'name': 'n%d:%s:depth=%d' % (len(ks), '-'.join(ks), d), 'family': 'graph',
                        'params': {'kinds': list(ks), 'depth': d, 'traced': False}, 'budget': 200.0})
    # 3 nodes: partitioned by the first row of the matrix
    k3 = [('list', 'list', 'list'), ('list', 'dict', 'tuple'), ('dict', 'tuple', 'list')]
    if tier == 'thorough':
        k3 = list(itertools.product(K, repeat=3))
    for ks in k3:
        for row in itertools.product([0, 1], repeat=3):
            if not any(row):
                continue        # root without successors: a 1-node graph
            out.append({'name': 'n3:%s:row0=%s' % ('-'.join(ks), ''.join(map(str, row))), 'family': 'graph',
                        'params': {'kinds': list(ks), 'row0': list(row)},
                        'budget': 150.0 if tier == 'quick' else 400.0})
            if ks == k3[1] and (tier == 'thorough' or sum(row) == 2):
                out.append({'name': 'n3:%s:row0=%s:after-aborted-print' % ('-'.join(ks), ''.join(map(str, row))),
                            'family': 'graph',
                            'params': {'kinds': list(ks), 'row0': list(row), 'abort_first': True},
                            'budget': 150.0 if tier == 'quick' else 400.0})
    if tier == 'thorough':
        for ks in [('list', 'dict', 'tuple', 'list'), ('dict', 'list', 'list', 'tuple')]:
            for row in itertools.product([0, 1], repeat=4):
                if not any(row):
                    continue
                out.append({'name': 'n4:%s:row0=%s' % ('-'.join(ks), ''.join(map(str, row))), 'family': 'graph',
                            'params': {'kinds': list(ks), 'row0': list(row)}, 'budget': 1500.0,
                            'path_timeout': 60.0})
    return out


def evidence(tier, seed, tasks, results):
    return {
        'coverage': {
            'bounds': {
                'graphs': 'every rooted directed graph (incl. self loops) on 1, 2, 3 nodes' + (' and on 4 nodes for two kind assignments' if tier == 'thorough' else ''),
                'node kinds': 'list, dict, tuple-holding-list; all assignments for n <= 2, %s for n = 3' % ('all' if tier == 'thorough' else 'three'),
                'width': 'default configuration; 1..200 symbolic for 2-node graphs',
            },
            'note': 'edges are solver variables concretised by branching: each path is one graph; for n <= 2 the real code runs under the tracer, for n >= 3 untraced once the graph is concrete',
            'outside_the_claim': 'graphs with more nodes; other container kinds (sets cannot be cyclic)',
        },
        'assumptions': ['reference DFS in vf/props/c13.py:reference', 'CrossHair; z3'],
    }
