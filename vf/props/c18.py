"""C18 - all entry points and configuration layers agree.

Family 'merge': which settings reach the pipeline.  Symbolic: for each of the
  six settings an explicit/defaulted flag and a value, preceded by one or two
  set_default_config calls with symbolic subsets and values; python_to_sdocs
  is rebound to a recorder in the package namespace.
Family 'agree': pprint / cpprint (colour off) / PrettyPrinter / pretty_repr
  against pformat on tiny values with symbolic width and small domains for
  the other settings.
"""
import sys
import warnings

from crosshair.tracers import NoTracing

import prettyprinter as PKG
from vf import base, pfbase, stubs
from vf.pfbase import PP

CASE = None
INITIAL = dict(PKG._default_config)
SETTINGS = ['indent', 'width', 'depth', 'ribbon_width', 'max_seq_len', 'sort_dict_keys']
SETTABLE = ['width', 'depth', 'ribbon_width', 'max_seq_len', 'sort_dict_keys']   # set_default_config has no indent


def _install(case):
    global CASE
    CASE = case
    pfbase.install(case)


class MergeCase(base.CaseBase):
    def __init__(self, params):
        super().__init__(params)
        self.entry = params['entry']              # pformat | pprint | cpprint | PrettyPrinter
        self.fixed = params.get('fixed', {})      # partition: fixed explicit flags
        self.two_calls = params.get('two_calls', False)

    def pre(self, ex, vals, s1, v1, s2, v2):
        for k, name in enumerate(SETTINGS):
            if name in self.fixed and ex[k] != self.fixed[name]:
                return False
        if not self.two_calls:
            for b in s2:
                if b:
                    return False
        return True

    def run(self, ex, vals, s1, v1, s2, v2):
        PKG._default_config = dict(INITIAL)
        recorded = []

        def recorder(value, **kw):
            recorded.append(kw)
            return iter(())
        saved = PKG.python_to_sdocs
        PKG.python_to_sdocs = recorder
        expected = dict(INITIAL)
        try:
            try:
                for flags, values in ((s1, v1), (s2, v2)):
                    kw = {}
                    for k, name in enumerate(SETTABLE):
                        if flags[k]:
                            kw[name] = values[k]
                            expected[name] = values[k]
                    if kw or flags is s1:
                        PKG.set_default_config(**kw)
                    # get_default_config reports exactly that
                    cur = PKG.get_default_config()
                    for name in SETTINGS:
                        if cur[name] != expected[name] and not (cur[name] is expected[name]):
                            return self.fail('C18:get_default_config-wrong:' + name)
                kw = {}
                for k, name in enumerate(SETTINGS):
                    if ex[k]:
                        kw[name] = vals[k]
                        expected[name] = vals[k]
                sink = stubs.Sink()
                if self.entry == 'pformat':
                    PKG.pformat(0, **kw)
                elif self.entry == 'pprint':
                    PKG.pprint(0, stream=sink, **kw)
                elif self.entry == 'cpprint':
                    PKG.cpprint(0, stream=sink, **kw)
                else:
                    PKG.PrettyPrinter(**kw).pformat(0)
            except Exception as e:
                exc = type(e).__name__
                if self.entry == 'PrettyPrinter':
                    return self.fail('C18:PrettyPrinter-method-raises-' + exc, lambda: repr(e))
                return self.fail('C18:entry-point-raises-' + exc, lambda: repr(e))
        finally:
            PKG.python_to_sdocs = saved
            PKG._default_config = dict(INITIAL)
        if len(recorded) != 1:
            return self.fail('C18:pipeline-not-called-once')
        got = recorded[0]
        for name in SETTINGS:
            if name not in got:
                return self.fail('C18:setting-not-passed:' + name)
            if got[name] is expected[name]:
                continue
            if got[name] != expected[name]:
                return self.fail('C18:wrong-effective-setting:' + name,
                                 lambda: '%s: got %r expected %r' % (name, got[name], expected[name]))
        return True

    def run_native(self, a):
        ex = [a['e%d' % k] for k in range(6)]
        vals = [a['x%d' % k] for k in range(5)] + [a['xs']]
        s1 = [a['p%d' % k] for k in range(5)]
        v1 = [a['y%d' % k] for k in range(4)] + [a['ys']]
        s2 = [a['q%d' % k] for k in range(5)]
        v2 = [a['z%d' % k] for k in range(4)] + [a['zs']]
        return self.run(ex, vals, s1, v1, s2, v2)


def _pre_m(ex, vals, s1, v1, s2, v2):
    return CASE.pre(ex, vals, s1, v1, s2, v2)


def h_merge(e0: bool, e1: bool, e2: bool, e3: bool, e4: bool, e5: bool,
            x0: int, x1: int, x2: int, x3: int, x4: int, xs: bool,
            p0: bool, p1: bool, p2: bool, p3: bool, p4: bool,
            y0: int, y1: int, y2: int, y3: int, ys: bool,
            q0: bool, q1: bool, q2: bool, q3: bool, q4: bool,
            z0: int, z1: int, z2: int, z3: int, zs: bool) -> bool:
    """
    pre: _pre_m([e0, e1, e2, e3, e4, e5], [x0, x1, x2, x3, x4, xs], [p0, p1, p2, p3, p4], [y0, y1, y2, y3, ys], [q0, q1, q2, q3, q4], [z0, z1, z2, z3, zs])
    post: _
    """
    return CASE.run([e0, e1, e2, e3, e4, e5], [x0, x1, x2, x3, x4, xs],
                    [p0, p1, p2, p3, p4], [y0, y1, y2, y3, ys],
                    [q0, q1, q2, q3, q4], [z0, z1, z2, z3, zs])


def h_merge_twin(e0: bool, e1: bool, e2: bool, e3: bool, e4: bool, e5: bool,
                 x0: int, x1: int, x2: int, x3: int, x4: int, xs: bool,
                 p0: bool, p1: bool, p2: bool, p3: bool, p4: bool,
                 y0: int, y1: int, y2: int, y3: int, ys: bool,
                 q0: bool, q1: bool, q2: bool, q3: bool, q4: bool,
                 z0: int, z1: int, z2: int, z3: int, zs: bool) -> bool:
    """
    pre: _pre_m([e0, e1, e2, e3, e4, e5], [x0, x1, x2, x3, x4, xs], [p0, p1, p2, p3, p4], [y0, y1, y2, y3, ys], [q0, q1, q2, q3, q4], [z0, z1, z2, z3, zs])
    post: False
    """
    CASE.run([e0, e1, e2, e3, e4, e5], [x0, x1, x2, x3, x4, xs],
             [p0, p1, p2, p3, p4], [y0, y1, y2, y3, ys],
             [q0, q1, q2, q3, q4], [z0, z1, z2, z3, zs])
    return True


# ---- agreement of the entry points ------------------------------------------

class Reg:
    """A registered user type (pretty_repr)."""

    def __init__(self, x):
        self.x = x

    __repr__ = PKG.pretty_repr


_reg_done = [False]


def register_reg():
    if not _reg_done[0]:
        @PP.register_pretty(Reg)
        def pretty_reg(value, ctx):
            return PP.pretty_call(ctx, Reg, value.x)
        _reg_done[0] = True


class RegSub(Reg):
    """not registered itself: covered through its registered superclass"""


class Late:
    """uses pretty_repr before any printer is registered for it (documented
    fallback with a warning); a printer is registered afterwards"""

    def __init__(self, x):
        self.x = x

    __repr__ = PKG.pretty_repr


class LateSub(Late):
    pass


def pretty_late(value, ctx):
    return PP.pretty_call(ctx, type(value), value.x)


VALUES = {
    'int': lambda: 7,
    'list': lambda: [1, 'two', (3,)],
    'dict': lambda: {'b': [1, 2, 3, 4], 'a': {1: 2}},
    'str': lambda: 'some words to split here',
    'nested': lambda: [[1, 2, 3], [4, 5, 6]],
    'reg': lambda: Reg([1, 2]),
    'regsub': lambda: RegSub({'k': (1,)}),
    'late': lambda: Late([1, 2]),
    'latesub': lambda: LateSub('x'),
}


class AgreeCase(pfbase.CfgCase):
    def __init__(self, params):
        super().__init__(params)
        register_reg()
        self.vname = params['value']
        self.entry = params['entry']
        self.cfg = params.get('cfg', {})        # concrete indent / depth / max_seq_len / sort_dict_keys
        self.end = params.get('end', '\n')

    def run(self, w, rw):
        import colorful
        v = VALUES[self.vname]()
        cfg = dict(self.cfg)
        rib = stubs.ribbon_arg(rw, w, self.native)
        describe = lambda: 'value=%s entry=%s cfg=%r w=%r rw=%r' % (self.vname, self.entry, cfg, w, rw)
        PKG._default_config = dict(INITIAL)
        try:
            with warnings.catch_warnings():
                if self.entry == 'pretty_repr-late':
                    warnings.simplefilter('ignore')    # (unregistered at this point: documented warning)
                base_text = PKG.pformat(v, width=w, ribbon_width=rib, **cfg)
            sink = stubs.Sink()
            if self.entry == 'pprint':
                PKG.pprint(v, stream=sink, width=w, ribbon_width=rib, end=self.end, **cfg)
                got = sink.getvalue()
                want = base_text + (self.end or '')
            elif self.entry == 'cpprint':
                colorful.disable()
                try:
                    PKG.cpprint(v, stream=sink, width=w, ribbon_width=rib, end=self.end, **cfg)
                finally:
                    colorful.use_true_colors()
                got = sink.getvalue()
                want = base_text + (self.end or '')
            elif self.entry == 'PrettyPrinter.pformat':
                got = PKG.PrettyPrinter(width=w, ribbon_width=rib, **cfg).pformat(v)
                want = base_text
            elif self.entry == 'PrettyPrinter.pprint':
                PKG.PrettyPrinter(stream=sink, width=w, ribbon_width=rib, **cfg).pprint(v)
                got = sink.getvalue()
                want = base_text + '\n'
            elif self.entry == 'defaults':
                # the same settings installed as defaults (indent cannot be a default)
                dcfg = {k: x for k, x in cfg.items() if k != 'indent'}
                icfg = {k: x for k, x in cfg.items() if k == 'indent'}
                PKG.set_default_config(width=w, ribbon_width=rib, **dcfg)
                got = PKG.pformat(v, **icfg)
                want = base_text
            elif self.entry == 'pretty_repr':
                got = repr(v)
                want = PKG.pformat(v)
            elif self.entry == 'pretty_repr-late':
                # repr() while unregistered, then a printer is registered (for the
                # class or its base): from then on repr() is the pformat text
                from vf.props import c15
                with NoTracing():
                    c15.snapshot()
                    try:
                        with warnings.catch_warnings():
                            warnings.simplefilter('ignore')
                            before = repr(v)
                        PP.register_pretty(Late)(pretty_late)
                        got = repr(v)
                        want = PKG.pformat(v)
                    finally:
                        c15.reset()
                if 'object at 0x' not in before:
                    return self.fail('C18:entry-points-disagree:pretty_repr',
                                     lambda: describe() + '\nunregistered repr: %r' % before)
            else:
                raise ValueError(self.entry)
        except Exception as e:
            exc = type(e).__name__
            if self.entry.startswith('PrettyPrinter'):
                return self.fail('C18:PrettyPrinter-method-raises-' + exc, lambda: describe() + '\n' + repr(e))
            return self.fail('C18:entry-point-raises-' + exc, lambda: describe() + '\n' + repr(e))
        finally:
            PKG._default_config = dict(INITIAL)
        if got != want:
            return self.fail('C18:entry-points-disagree:' + self.entry,
                             lambda: describe() + '\ngot:\n%s\nwant:\n%s' % (got, want))
        return True


FAMILIES = {
    'merge': base.Family('merge', h_merge, h_merge_twin, MergeCase, _install),
    'agree': pfbase.cfg_family('agree', AgreeCase),
}


def run_case(task):
    return base.generic_run_case(FAMILIES, task)


def replay_case(task):
    return base.generic_replay_case(FAMILIES, task)


def cases(tier, seed):
    import itertools
    out = []
    first = True
    for entry in ('pformat', 'pprint', 'cpprint', 'PrettyPrinter'):
        # partition by the explicit flags of the first three settings
        for bits in itertools.product([False, True], repeat=3):
            fixed = dict(zip(SETTINGS[:3], bits))
            out.append({'name': 'merge:%s:explicit=%s' % (entry, ''.join('1' if b else '0' for b in bits)),
                        'family': 'merge', 'params': {'entry': entry, 'fixed': fixed},
                        'budget': 200.0 if tier == 'quick' else 600.0, 'twin': first})
            first = False
    # two set_default_config calls, explicit flags of all six settings fixed
    combos = [(False,) * 6, (True,) * 6, (True, False, True, False, True, False)]
    if tier == 'thorough':
        combos = list(itertools.product([False, True], repeat=6))[::3]
    for bits in combos:
        out.append({'name': 'merge2:pformat:explicit=%s' % ''.join('1' if b else '0' for b in bits),
                    'family': 'merge',
                    'params': {'entry': 'pformat', 'fixed': dict(zip(SETTINGS, bits)), 'two_calls': True},
                    'budget': 300.0 if tier == 'quick' else 900.0})
    cfgs = [{}, {'indent': 2}, {'depth': 1}, {'max_seq_len': 2}, {'sort_dict_keys': True},
            {'indent': 1, 'depth': 2, 'max_seq_len': 3, 'sort_dict_keys': True}]
    entries = ['pprint', 'cpprint', 'PrettyPrinter.pformat', 'PrettyPrinter.pprint', 'defaults']
    n = 0
    block = 0
    for vname in VALUES:
        if vname.startswith('late'):
            continue
        for entry in entries:
            block += 1
            for ci, cfg in enumerate(cfgs):
                n += 1
                # quick: the default configuration plus one of the others in turn
                if tier == 'quick' and ci != block % len(cfgs) and ci != 0:
                    continue
                if tier == 'quick' and vname in ('int', 'nested') and ci != 0:
                    continue
                out.append({'name': 'agree:%s:%s:%r' % (vname, entry, cfg), 'family': 'agree',
                            'params': {'value': vname, 'entry': entry, 'cfg': cfg, 'slice': 'page',
                                       'end': '\n' if n % 3 else ('' if n % 2 else '<END>')},
                            'budget': 90.0 if tier == 'quick' else 300.0, 'twin': n == 1})
    out.append({'name': 'agree:reg:pretty_repr', 'family': 'agree',
                'params': {'value': 'reg', 'entry': 'pretty_repr', 'slice': 'default'}, 'budget': 60.0})
    out.append({'name': 'agree:regsub:pretty_repr', 'family': 'agree',
                'params': {'value': 'regsub', 'entry': 'pretty_repr', 'slice': 'default'}, 'budget': 60.0})
    for vname in ('late', 'latesub'):
        out.append({'name': 'agree:%s:pretty_repr-late' % vname, 'family': 'agree',
                    'params': {'value': vname, 'entry': 'pretty_repr-late', 'slice': 'default'}, 'budget': 60.0})
    return out


def evidence(tier, seed, tasks, results):
    return {
        'coverage': {
            'bounds': {
                'merge': 'explicit/defaulted flag of each of the six settings symbolic (first three fixed per task = partition), values symbolic ints / bool without bounds, one set_default_config call with a symbolic subset and symbolic values (two calls in the merge2 cases), entry points pformat / pprint / cpprint / PrettyPrinter',
                'agree': 'width 1..200 symbolic (page slice), six small configurations of indent / depth / max_seq_len / sort_dict_keys, six tiny values, end strings {newline, empty, <END>}',
            },
            'outside_the_claim': 'longer set_default_config histories; style argument of set_default_config; larger values',
        },
        'assumptions': ['merge family: prettyprinter.python_to_sdocs is rebound to a recorder in the package namespace',
                        'cpprint is compared with colours disabled through colorful.disable()',
                        'lemma L1; CrossHair; z3'],
    }
