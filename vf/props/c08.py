"""C08 - instances of subclasses of built-in types keep their class.

Symbolic: page width / ribbon width (slices).  Enumerated: subclass family
(plain, __repr__-, __str__-overriding, both; IntEnum), base values, contexts.
"""
import warnings

from crosshair.tracers import NoTracing

from vf import base, pfbase, subcls
from vf.props.c02 import Box, register_box

LONG = 'The quick brown fox jumps over the lazy dog and keeps running until the line is far too long'

BASE_VALUES = {
    'list': ['[]', '[1]', '[1, "two", None]', '[[1], [2]]'],
    'tuple': ['()', '(1,)', '(1, 2)', '((1,),)'],
    'set': ['set()', '{1}', '{1, "a"}'],
    'frozenset': ['frozenset()', 'frozenset({1})', 'frozenset({1, "a"})'],
    'dict': ['{}', '{1: 2}', '{"a": [1], "b": 2}', '{1: 1, 2: 2, 3: 3}'],
    'str': ["''", "'a'", '"it\'s"', "'two words'", repr(LONG), repr('x' * 30), repr('ab ' * 12)],
    'bytes': ["b''", "b'a'", "b'\\x00\\''", repr(LONG.encode()), repr(b'y' * 30)],
    'int': ['0', '-1', '10**20', '7'],
    'float': ['0.0', '-0.0', '1.5', "float('inf')", "float('-inf')", "float('nan')", '1e300'],
}

CONTEXTS = {
    'top': lambda v: v,
    'elem': lambda v: [0, v],
    'sole': lambda v: [v],
    'dval': lambda v: {'key': v},
    'arg': lambda v: Box(v),
    'kwarg': lambda v: Box(0, tag=v),
    'deep': lambda v: [[{'k': (v,)}]],
    'dkey': lambda v: {v: 1},
    'elem-after-equal': lambda v: [_plain(v), v],
    # the very same object at two positions of one print
    'twice': lambda v: [v, (v,)],
}


def _plain(v):
    """the equal value of the built-in base type (printed just before the instance)"""
    return raw_base(v)


def raw_base(v):
    """The underlying value as an instance of the built-in base type, without
    going through anything the subclass may override (str(x) would use an
    overridden __str__, bytes(x) an overridden __bytes__)."""
    if isinstance(v, (str, bytes)):
        return v[:] if type(v[:]) in (str, bytes) else (str.__str__(v) if isinstance(v, str) else bytes(v))
    if isinstance(v, float):
        return float.__float__(v)
    if isinstance(v, int):
        return int.__int__(v)
    for b in subcls.BASES:
        if isinstance(v, b):
            return b(v)
    return v



def unwrap(ctxname, got):
    if ctxname == 'top':
        return got
    if ctxname == 'elem':
        return got[1]
    if ctxname == 'sole':
        return got[0]
    if ctxname == 'dval':
        return got['key']
    if ctxname == 'arg':
        return got.x
    if ctxname == 'kwarg':
        return got.tag
    if ctxname == 'deep':
        return got[0][0]['k'][0]
    if ctxname == 'dkey':
        return list(got)[0]
    if ctxname == 'elem-after-equal':
        return got[1]
    if ctxname == 'twice':
        return got[1][0]


class SubclassCase(pfbase.CfgCase):
    def __init__(self, params):
        super().__init__(params)
        register_box()
        self.cls = subcls.CLASSES[params['cls']]
        self.basecls = subcls.base_of(self.cls)
        if params.get('member'):
            self.inst = self.cls[params['member']]
        else:
            bv = eval(params['base_value'], {'__builtins__': {'float': float, 'frozenset': frozenset, 'set': set}})
            self.inst = self.cls(bv)
        self.ctxname = params['context']
        if self.ctxname == 'dkey':
            try:
                hash(self.inst)
            except TypeError:
                self.ctxname = 'sole'       # unhashable instances cannot be keys
        self.value = CONTEXTS[self.ctxname](self.inst)
        self.indent = params.get('indent', 4)

    def run(self, w, rw):
        with warnings.catch_warnings(record=True) as wlist:
            warnings.simplefilter('always')
            try:
                if self.native:
                    text = pfbase.native_pformat(self.value, w, rw, indent=self.indent)
                else:
                    text = pfbase.ptext(self.value, w, rw, indent=self.indent)
            except Exception as e:
                exc = type(e).__name__
                return self.fail('C08:pformat-raises-' + exc, lambda: '%s: %s' % (exc, e))
        with NoTracing():
            return self.judge(text, w, rw, wlist)

    def judge(self, text, w, rw, wlist):
        describe = lambda: 'class=%s base value=%r context=%s w=%r rw=%r\noutput:\n%s' % (
            self.cls.__name__, raw_base(self.inst),
            self.ctxname, w, rw, text)
        bname = self.basecls.__name__
        if any(issubclass(x.category, UserWarning) for x in wlist):
            return self.fail('C08:printer-failed-repr-fallback:' + bname, describe)
        import vf
        ns = dict(pfbase.builtins_ns())
        ns['vf'] = vf
        try:
            got = pfbase.eval_text(text, ns)
        except Exception as e:
            if bname in ('int', 'float'):
                return self.fail('C08:%s-subclass-literal-uses-overridden-repr' % bname, describe)
            return self.fail('C08:output-not-an-expression:' + bname, describe)
        try:
            inner = unwrap(self.ctxname, got)
        except Exception:
            return self.fail('C08:context-changed:' + bname, describe)
        if type(inner) is not self.cls:
            if bname in ('str', 'bytes') and type(inner) is self.basecls:
                return self.fail('C08:%s-subclass-wrapper-lost' % bname, describe)
            return self.fail('C08:class-not-kept:' + bname, describe)
        if not pfbase.strict_eq(raw_base(inner), raw_base(self.inst)):
            return self.fail('C08:base-value-differs:' + bname, describe)
        return True


FAMILIES = {'subclass': pfbase.cfg_family('subclass', SubclassCase)}


def run_case(task):
    return base.generic_run_case(FAMILIES, task)


def replay_case(task):
    return base.generic_replay_case(FAMILIES, task)


THOROUGH_KEEP = {'*': 0.5}      # see vf/runner.py (time: about 10 minutes per thorough tier)


def cases(tier, seed):
    out = []
    n = 0
    pair = 0
    for b in subcls.BASES:
        bn = b.__name__
        for flavour in ('Plain', 'Repr', 'Str', 'Both'):
            cname = flavour + bn.capitalize()
            for vi, bv in enumerate(BASE_VALUES[bn]):
                pair += 1
                for ci, ctx in enumerate(CONTEXTS):
                    n += 1
                    if tier == 'quick':
                        # every (class, value) in one rotating context (each context in turn), plus
                        # fixed extras: str / bytes as dict value and key, the same object twice
                        if flavour in ('Str', 'Both') and vi % 2 == 1:
                            continue
                        if ci != pair % len(CONTEXTS) \
                                and not (ctx == 'dval' and bn in ('str', 'bytes') and flavour == 'Plain') \
                                and not (ctx == 'dkey' and bn in ('str', 'bytes') and vi in (1, 2) and flavour in ('Plain', 'Repr')) \
                                and not (ctx == 'twice' and vi == 1 and flavour in ('Plain', 'Repr')):
                            continue
                    elif flavour in ('Str', 'Both') and (vi + ci) % 3 != 0:
                        continue        # thorough: a third of the contexts for the __str__ flavours
                    long_ = len(bv) > 40
                    out.append({'name': '%s:%s:%s' % (cname, bv[:20], ctx), 'family': 'subclass',
                                'params': {'cls': cname, 'base_value': bv, 'context': ctx, 'slice': 'page'},
                                'budget': 90.0 if tier == 'quick' else 300.0, 'path_timeout': 30.0,
                                'twin': n == 1})
                    if tier == 'thorough' and ((bn in ('str', 'bytes') and ctx in ('top', 'dval', 'dkey') and flavour in ('Plain', 'Repr'))
                                               or (ctx == 'top' and flavour == 'Plain')):
                        out.append({'name': '%s:%s:%s|ribbon' % (cname, bv[:20], ctx), 'family': 'subclass',
                                    'params': {'cls': cname, 'base_value': bv, 'context': ctx, 'slice': 'ribbon'},
                                    'budget': 300.0, 'path_timeout': 30.0})
    for member in ('RED', 'BIG'):
        for ctx in (CONTEXTS if tier == 'thorough' else ['top', 'dval', 'twice']):
            out.append({'name': 'Color.%s:%s' % (member, ctx), 'family': 'subclass',
                        'params': {'cls': 'Color', 'member': member, 'context': ctx, 'slice': 'page'},
                        'budget': 60.0})
    return out


def evidence(tier, seed, tasks, results):
    return {
        'coverage': {
            'bounds': {
                'width': '1..200 symbolic (page slice)' + ('; ribbon slice for str/bytes and top-level cases' if tier == 'thorough' else ''),
                'subclasses': '4 flavours (plain, __repr__, __str__, both overridden) x 9 built-in bases + an IntEnum',
                'base values': {k: len(v) for k, v in BASE_VALUES.items()},
                'contexts': list(CONTEXTS),
            },
            'outside_the_claim': 'subclass definitions and base values are enumerated, not symbolic',
        },
        'assumptions': ['lemma L1; CrossHair; z3; CPython eval as oracle'],
    }
