"""C02 - string and bytes literals are reproduced exactly, however they are split.

Family 'splitter': the real str_to_lines with symbolic max_len (1..200) and a
  symbolic selector into a batch of concrete strings; pieces re-join, none is
  empty, the number of escaped_len calls is bounded (unwinding assertion for
  "always terminates, however little width is left").
Family 'context': a string in one of six placements, (width, ribbon) symbolic;
  the STRING tokens of the output are decoded one by one.
Family 'escape': determine_quote_strategy + escape_str_for_quote on symbolic
  ASCII content of length <= 2 (repr replaced by a validated pure-Python model).
"""
import ast
import io
import itertools
import re
import tokenize

from crosshair.tracers import NoTracing

from vf import base, pfbase
from vf.pfbase import PP

CASE = None


def _install(case):
    global CASE
    CASE = case


ALPHABET = ["'", '"', '\\', ' ', '\n', 'a', '\xe9', '\x00']


def all_strings(maxlen):
    out = []
    for n in range(0, maxlen + 1):
        for tup in itertools.product(ALPHABET, repeat=n):
            out.append(''.join(tup))
    return out


def to_bytes(s):
    return s.encode('latin-1')


CURATED_LONG = [
    'The quick brown fox jumps over the lazy dog and keeps running until the line is far too long',
    'abcdefghij' * 9,
    'alpha/beta/gamma/delta/epsilon/zeta/eta/theta/iota/kappa/lambda/mu/nu/xi/omicron/pi/rho',
    "it's a \"quoted\" string with 'both' kinds of quotes and a backslash \\ in the middle of it all",
    'line one\nline two\nline three\twith tab and \x00 nul and \x7f del, long enough to be split somewhere',
    '  leading and trailing whitespace, doubled  spaces  inside,   and more      ',
    'na\xefve caf\xe9 中文 \U0001f600 unicode text that goes on and on until it must be split up',
    'x' * 40 + ' ' + 'y' * 40,
    "''''''''''''''''''''''''''''''''''''''''''''''''",
    '\\' * 30,
    'word ' * 20,
    '/usr/local/lib/python3.12/site-packages/prettyprinter/extras/ipython_repr_pretty.py',
]

PATH_PATTERN = re.compile('(/+)')


class SplitCase(base.CaseBase):
    def __init__(self, params):
        super().__init__(params)
        self.kind = params['kind']           # 'str' | 'bytes'
        strs = params['strings']
        self.strs = [to_bytes(s) for s in strs] if self.kind == 'bytes' else list(strs)
        self.quote = params['quote']
        self.pattern = PATH_PATTERN if params.get('path') else None
        self.maxmax = params.get('maxmax', 200)

    def pre(self, k, max_len):
        return 0 <= k and k < len(self.strs) and 1 <= max_len and max_len <= self.maxmax

    def run(self, k, max_len):
        # concretise the selector by an explicit chain (a symbolic index into
        # a list of objects is not supported)
        s = None
        for j in range(len(self.strs)):
            if k == j:
                s = self.strs[j]
                break
        calls = [0]
        orig = PP.escaped_len

        def counting(part, use_quote):
            calls[0] += 1
            return orig(part, use_quote)
        PP.escaped_len = counting
        try:
            try:
                pieces = list(PP.str_to_lines(max_len, self.quote, s, pattern=self.pattern))
            except Exception as e:
                exc = type(e).__name__
                return self.fail('C02:splitter-raises-' + exc,
                                 lambda: '%s: %s for s=%r max_len=%r' % (exc, e, s, max_len))
        finally:
            PP.escaped_len = orig
        describe = lambda: 's=%r max_len=%r quote=%r pieces=%r' % (s, max_len, self.quote, pieces)
        empty = b'' if self.kind == 'bytes' else ''
        if empty.join(pieces) != s:
            return self.fail('C02:pieces-do-not-rejoin', describe)
        for p in pieces:
            if len(p) == 0:
                return self.fail('C02:empty-piece', describe)
        if calls[0] > 4 * len(s) + 4:
            return self.fail('C02:splitter-work-unbounded', describe)
        return True

    def run_native(self, args):
        return self.run(args['k'], args['max_len'])


def _pre_split(k, max_len):
    return CASE.pre(k, max_len)


def h_split(k: int, max_len: int) -> bool:
    """
    pre: _pre_split(k, max_len)
    post: _
    """
    return CASE.run(k, max_len)


def h_split_twin(k: int, max_len: int) -> bool:
    """
    pre: _pre_split(k, max_len)
    post: False
    """
    CASE.run(k, max_len)
    return True


# ---- in context -----------------------------------------------------------

class Box:
    """A user type printed through pretty_call (call-argument context)."""

    def __init__(self, x, tag=None):
        self.x = x
        self.tag = tag

    def __eq__(self, other):
        return type(other) is Box and other.x == self.x and other.tag == self.tag

    def __hash__(self):
        return hash(('Box', self.x))


_box_registered = [False]


def register_box():
    if not _box_registered[0]:
        @PP.register_pretty(Box)
        def pretty_box(value, ctx):
            if value.tag is None:
                return PP.pretty_call(ctx, Box, value.x)
            return PP.pretty_call(ctx, Box, value.x, tag=value.tag)
        _box_registered[0] = True


CONTEXTS = {
    'top': lambda s: s,
    'sole': lambda s: [s],
    'among': lambda s: [1, s, 2],
    'key': lambda s: {s: 1},
    'value': lambda s: {1: s},
    'arg': lambda s: Box(s),
    'kwarg': lambda s: Box(1, tag=s),
    'nested': lambda s: {'k': [s]} if isinstance(s, str) else {b'k': [s]},
}

# (piece, long string that ends in that piece and is quoted the other way):
# both are printed in the same value, the piece first
INTERFERENCE = [
    ('x"y', "it's it's it's it's x\"y"),
    (' ', "don't \" \" \" do it's"),
    ("it's", 'say "a" "b" "c" "d" it\'s'),
    ('a\\b', "it's it's it's a\\b"),
    ('"', "isn't isn't isn't \""),
]


def eval_ns():
    import vf
    ns = dict(pfbase.builtins_ns())
    ns['vf'] = vf
    return ns


class ContextCase(pfbase.CfgCase):
    def __init__(self, params):
        super().__init__(params)
        register_box()
        s = params['s']
        self.s = to_bytes(s) if params['kind'] == 'bytes' else s
        self.ctxname = params['context']
        if self.ctxname == 'pair':
            first = params['first']
            self.first = to_bytes(first) if params['kind'] == 'bytes' else first
            self.value = [self.first, self.s]
        else:
            self.value = CONTEXTS[self.ctxname](self.s)
        self.indent = params.get('indent', 4)

    def run(self, w, rw):
        try:
            if self.native:
                text = pfbase.native_pformat(self.value, w, rw, indent=self.indent)
            else:
                text = pfbase.ptext(self.value, w, rw, indent=self.indent)
        except Exception as e:
            exc = type(e).__name__
            return self.fail('C02:pformat-raises-' + exc, lambda: '%s: %s' % (exc, e))
        with NoTracing():
            return self.judge(text, w, rw)

    def judge(self, text, w, rw):
        self._skipped_first = False
        describe = lambda: 's=%r context=%s w=%r rw=%r\noutput:\n%s' % (
            self.s, self.ctxname, w, rw, text)
        try:
            toks = list(tokenize.generate_tokens(io.StringIO('(' + text + '\n)').readline))
        except Exception:
            return self.fail('C02:output-does-not-tokenize', describe)
        is_bytes = isinstance(self.s, bytes)
        pieces = []
        for t in toks:
            if t.type != tokenize.STRING:
                continue
            lit = t.string
            if self.ctxname == 'nested' and lit in ("'k'", "b'k'"):
                continue
            if self.ctxname == 'pair' and not pieces and not getattr(self, '_skipped_first', False):
                # the first STRING token is the companion element
                self._skipped_first = True
                try:
                    if ast.literal_eval(lit) != self.first:
                        return self.fail('C02:literals-do-not-concatenate-to-value', describe)
                except Exception:
                    return self.fail('C02:piece-not-a-literal', describe)
                continue
            prefix = lit[:len(lit) - len(lit.lstrip('bBrRuUfF'))]
            if ('b' in prefix.lower()) != is_bytes:
                return self.fail('C02:bytes-prefix-wrong', describe)
            try:
                pieces.append(ast.literal_eval(lit))
            except Exception:
                return self.fail('C02:piece-not-a-literal', describe)
        if len(self.s) == 0:
            if len(pieces) != 1 or pieces[0] != self.s:
                return self.fail('C02:empty-string-not-one-empty-literal', describe)
        else:
            for p in pieces:
                if len(p) == 0:
                    return self.fail('C02:empty-piece', describe)
            joined = (b'' if is_bytes else '').join(pieces)
            if joined != self.s or type(joined) is not type(self.s):
                return self.fail('C02:literals-do-not-concatenate-to-value', describe)
        try:
            got = pfbase.eval_text(text, eval_ns())
        except Exception:
            return self.fail('C02:output-not-an-expression', describe)
        if not (type(got) is type(self.value) and got == self.value):
            return self.fail('C02:enclosing-expression-changed', describe)
        return True


# ---- escape kernel with symbolic content -----------------------------------

def model_repr(s):
    """Pure-Python model of repr(str) for ASCII content (validated against the
    real repr at every run, see validate_models)."""
    if "'" in s and '"' not in s:
        q = '"'
    else:
        q = "'"
    out = [q]
    for ch in s:
        if ch == q or ch == '\\':
            out.append('\\' + ch)
        elif ch == '\n':
            out.append('\\n')
        elif ch == '\r':
            out.append('\\r')
        elif ch == '\t':
            out.append('\\t')
        elif ch < ' ' or ch == '\x7f':
            o = ord(ch)
            out.append('\\x' + '0123456789abcdef'[o // 16] + '0123456789abcdef'[o % 16])
        else:
            out.append(ch)
    out.append(q)
    return ''.join(out)


class _StrMeta(type):
    def __instancecheck__(cls, x):
        return isinstance(x, str)

    def __subclasscheck__(cls, c):
        return issubclass(c, str)


class FakeStr(metaclass=_StrMeta):
    """Stands for the name ``str`` inside prettyprinter.prettyprinter during
    the escape-kernel runs: isinstance behaves like str, ``str.__repr__`` is
    the pure-Python model."""
    __repr__ = model_repr


def model_unescape(body, quote):
    """Inverse of the escaping for ASCII: the characters denoted by the body of
    a literal delimited by ``quote``; None if the body is not well formed
    (unescaped delimiter, dangling backslash, unknown escape)."""
    out = []
    i = 0
    n = len(body)
    while i < n:
        ch = body[i]
        if ch == quote:
            return None
        if ch != '\\':
            if ch < ' ' or ch == '\x7f':
                return None       # raw control characters are never emitted
            out.append(ch)
            i += 1
            continue
        if i + 1 >= n:
            return None
        e = body[i + 1]
        if e == '\\' or e == "'" or e == '"':
            out.append(e)
            i += 2
        elif e == 'n':
            out.append('\n')
            i += 2
        elif e == 'r':
            out.append('\r')
            i += 2
        elif e == 't':
            out.append('\t')
            i += 2
        elif e == 'x':
            if i + 3 >= n:
                return None
            h = '0123456789abcdef'
            a = h.find(body[i + 2])
            b = h.find(body[i + 3])
            if a < 0 or b < 0:
                return None
            out.append(chr(a * 16 + b))
            i += 4
        else:
            return None
    return ''.join(out)


def validate_models():
    """Native validation of the two models against CPython on every ASCII
    string of length <= 2 plus seeded longer ones."""
    import random
    chars = [chr(c) for c in range(128)]
    samples = [''] + chars + [a + b for a in chars for b in chars]
    rnd = random.Random(7)
    samples += [''.join(rnd.choice(chars) for _ in range(rnd.randrange(3, 9))) for _ in range(3000)]
    for s in samples:
        if model_repr(s) != repr(s):
            return 'model_repr(%r) = %r, repr = %r' % (s, model_repr(s), repr(s))
        r = repr(s)
        if model_unescape(r[1:-1], r[0]) != s:
            return 'model_unescape(%r) = %r' % (r, model_unescape(r[1:-1], r[0]))
        for q in ("'", '"'):
            body = PP.escape_str_for_quote(q, s)
            try:
                real = ast.literal_eval(q + body + q)
            except Exception:
                real = None
            if model_unescape(body, q) != real:
                return 'model_unescape(%r, %r) = %r, eval = %r' % (body, q, model_unescape(body, q), real)
    return None


class EscapeCase(base.CaseBase):
    def __init__(self, params):
        super().__init__(params)
        self.maxlen = params['maxlen']
        self.alphabet = params.get('alphabet')      # None = all ASCII
        self.forced_quote = params.get('quote')     # None = the strategy's choice

    def pre(self, s):
        if len(s) > self.maxlen:
            return False
        for ch in s:
            if self.alphabet is not None:
                if ch not in self.alphabet:
                    return False
            elif not (ch <= '\x7f'):
                return False
        return True

    def run(self, s):
        if self.native:
            q = self.forced_quote or PP.determine_quote_strategy(s)
            body = PP.escape_str_for_quote(q, s)
        else:
            # the code obtains the escaped form through repr(s) or
            # str.__repr__(s): both names are rebound in the module namespace
            PP.repr = model_repr
            PP.str = FakeStr
            try:
                q = self.forced_quote or PP.determine_quote_strategy(s)
                body = PP.escape_str_for_quote(q, s)
            finally:
                del PP.repr
                del PP.str
        if self.native:
            try:
                back = ast.literal_eval(q + body + q)
            except Exception:
                back = None
        else:
            back = model_unescape(body, q)
        if back is None:
            return self.fail('C02:escaped-body-not-a-literal',
                             lambda: 's=%r quote=%r body=%r' % (s, q, body))
        if back != s:
            return self.fail('C02:escaped-body-denotes-other-string',
                             lambda: 's=%r quote=%r body=%r -> %r' % (s, q, body, back))
        if self.forced_quote is None:
            # the chosen quote minimises escapes: never pick a quote that
            # occurs in s when the other one does not
            if q == "'" and "'" in s and '"' not in s:
                return self.fail('C02:quote-choice-not-minimal', lambda: 's=%r' % s)
            if q == '"' and '"' in s and "'" not in s:
                return self.fail('C02:quote-choice-not-minimal', lambda: 's=%r' % s)
        return True

    def run_native(self, args):
        return self.run(args['s'])


def _pre_esc(s):
    return CASE.pre(s)


def h_escape(s: str) -> bool:
    """
    pre: _pre_esc(s)
    post: _
    """
    return CASE.run(s)


def h_escape_twin(s: str) -> bool:
    """
    pre: _pre_esc(s)
    post: False
    """
    CASE.run(s)
    return True


def _install_both(case):
    _install(case)
    pfbase.install(case)


FAMILIES = {
    'splitter': base.Family('splitter', h_split, h_split_twin, SplitCase, _install),
    'context': base.Family('context', pfbase.h_cfg, pfbase.h_cfg_twin, ContextCase, pfbase.install),
    'escape': base.Family('escape', h_escape, h_escape_twin, EscapeCase, _install),
}


def run_case(task):
    return base.generic_run_case(FAMILIES, task)


def replay_case(task):
    return base.generic_replay_case(FAMILIES, task)


def validate_task(task):
    bad = validate_models()
    if bad:
        return {'verdict': 'MACHINERY', 'paths': 0, 'message': 'repr/unescape model invalid: ' + bad}
    return {'verdict': 'CONFIRMED', 'paths': 1, 'message': 'repr / unescape models agree with CPython'}


CONTEXT_STRINGS = [
    '', 'a', "'", '"', '\\', '\n', ' ', '\x00', '\xe9', "'\"", "it's", 'q"', 'a\\b', ' a ',
    '\U0001f600', "''\"", '\\\\', '\t\r',
]


THOROUGH_KEEP = {'*': 0.6}      # see vf/runner.py (time: about 10 minutes per thorough tier)


def cases(tier, seed):
    out = []
    out.append({'name': 'validate-models', 'kind': 'call', 'fn': 'validate_task',
                'family': 'model-validation', 'params': {}, 'wall_budget': 300})
    # ---- splitter: short strings in batches, both kinds, both quotes
    short = all_strings(3 if tier == 'quick' else 4)
    short = [s for s in short if len(s) >= 2]      # shorter strings cannot be split
    bs = 40
    for kind in ('str', 'bytes'):
        for q in ("'", '"'):
            for b0 in range(0, len(short), bs):
                batch = short[b0:b0 + bs]
                out.append({'name': 'split:%s:%s:%d' % (kind, 'sq' if q == "'" else 'dq', b0),
                            'family': 'splitter',
                            'params': {'kind': kind, 'strings': batch, 'quote': q, 'maxmax': 8},
                            'budget': 120.0 if tier == 'quick' else 300.0,
                            'twin': b0 == 0 and kind == 'str' and q == "'"})
    for kind in ('str', 'bytes'):
        for j, s in enumerate(CURATED_LONG):
            if kind == 'bytes':
                try:
                    s.encode('latin-1')
                except UnicodeEncodeError:
                    continue
            for q in ("'", '"'):
                if tier == 'quick' and q == '"' and j not in (3, 8):
                    continue
                out.append({'name': 'split-long:%s:%d:%s' % (kind, j, 'sq' if q == "'" else 'dq'),
                            'family': 'splitter',
                            'params': {'kind': kind, 'strings': [s], 'quote': q, 'maxmax': 200,
                                       'path': j == len(CURATED_LONG) - 1 and kind == 'str'},
                            'budget': 150.0 if tier == 'quick' else 400.0})
    # ---- in context
    ctxs = list(CONTEXTS)
    strings = [(s, 'str') for s in CONTEXT_STRINGS] + \
              [(s, 'bytes') for s in CONTEXT_STRINGS if all(ord(c) < 256 for c in s)]
    n = 0
    for s, kind in strings:
        for c in ctxs:
            n += 1
            if tier == 'quick' and (n % 3 != 0) and s != '':
                continue
            out.append({'name': 'ctx:%s:%s:%r' % (kind, c, s), 'family': 'context',
                        'params': {'s': s, 'kind': kind, 'context': c, 'slice': 'page'},
                        'budget': 60.0, 'twin': n == 3})
            if tier == 'thorough':
                out.append({'name': 'ctx:%s:%s:%r|narrow' % (kind, c, s), 'family': 'context',
                            'params': {'s': s, 'kind': kind, 'context': c, 'slice': 'narrow'},
                            'budget': 120.0})
    longs = [(CURATED_LONG[j], 'str') for j in (0, 1, 3, 4, 6)] + \
            [(CURATED_LONG[j], 'bytes') for j in (0, 3, 4)]
    for j, (s, kind) in enumerate(longs):
        for c in ctxs:
            if tier == 'quick' and (j + len(c)) % 3 != 0:
                continue
            for sl in (['page'] if tier == 'quick' else ['page', 'ribbon']):
                out.append({'name': 'ctx-long:%s:%s:%d|%s' % (kind, c, j, sl), 'family': 'context',
                            'params': {'s': s, 'kind': kind, 'context': c, 'slice': sl},
                            'budget': 100.0 if tier == 'quick' else 400.0, 'path_timeout': 40.0})
    for j, (piece, long_) in enumerate(INTERFERENCE):
        for kind in ('str', 'bytes'):
            out.append({'name': 'ctx-pair:%s:%d' % (kind, j), 'family': 'context',
                        'params': {'s': long_, 'first': piece, 'kind': kind, 'context': 'pair', 'slice': 'page'},
                        'budget': 90.0, 'path_timeout': 30.0})
    # ---- escape kernel
    out.append({'name': 'escape:ascii<=2', 'family': 'escape',
                'params': {'maxlen': 2}, 'budget': 200.0 if tier == 'quick' else 600.0,
                'twin': True})
    for q in ("'", '"'):
        out.append({'name': 'escape:ascii<=1:%s' % ('sq' if q == "'" else 'dq'), 'family': 'escape',
                    'params': {'maxlen': 1, 'quote': q}, 'budget': 100.0})
    if tier == 'thorough':
        for q in (None, "'", '"'):
            out.append({'name': 'escape:alphabet<=3:%s' % q, 'family': 'escape',
                        'params': {'maxlen': 3, 'alphabet': "'\"\\ \na\x00", 'quote': q},
                        'budget': 900.0})
    return out


def evidence(tier, seed, tasks, results):
    return {
        'coverage': {
            'bounds': {
                'splitter': 'max_len symbolic 1..8 on every str/bytes of length 2..%d over the 8-symbol alphabet (selector symbolic), '
                            'max_len symbolic 1..200 on %d curated long strings; both quote styles'
                            % (3 if tier == 'quick' else 4, len(CURATED_LONG)),
                'context': 'width 1..200 symbolic (page slice%s); 8 placements; %d short strings + long ones'
                           % (', ribbon and narrow 2-D slices' if tier == 'thorough' else '', len(CONTEXT_STRINGS)),
                'escape kernel': 'symbolic ASCII content, length <= 2 (any of the 128 code points per position)'
                                 + ('; length <= 3 over a 7-symbol alphabet' if tier == 'thorough' else ''),
            },
            'outside_the_claim': 'string *content* is enumerated in the splitter and context families; non-ASCII content only through the enumerated strings',
        },
        'assumptions': [
            'escape family: repr() is replaced by vf.props.c02.model_repr (validated natively against CPython on all ASCII strings of length <= 2 and 3000 seeded longer ones in this run)',
            'lemma L1; CrossHair; z3; tokenize / ast.literal_eval as oracle',
        ],
    }
