"""C17 - call-style printers show exactly the constructor call.

Family 'call': pretty_call / pretty_call_alt with a symbolic number of
  positional and keyword arguments (0..3 each, concretised) and symbolic page
  width; the output is evaluated with the callable in scope and must perform
  exactly that call (same positional arguments, same keywords in the same
  order), and the call's function is the qualified name.
Family 'fields': the dataclasses / attrs extras on classes built inside the
  harness from symbolic per-field flags (repr, has default, default factory)
  with symbolic int defaults and values; the keywords passed to pretty_call
  must be exactly the fields that should be shown, in declaration order.
Family 'instances': module-level dataclass / attrs classes (frozen, slots,
  nested) printed with symbolic width and evaluated back.
"""
import ast
import dataclasses
import importlib
import warnings
from collections import OrderedDict

from crosshair.tracers import NoTracing

import prettyprinter as PKG
from vf import base, pfbase
from vf.pfbase import PP

CASE = None


def _install(case):
    global CASE
    CASE = case
    pfbase.install(case)


class Callee:
    def __init__(self, *a, **k):
        self.a = a
        self.k = list(k.items())

    def __eq__(self, other):
        return type(other) is type(self) and self.a == other.a and self.k == other.k

    __hash__ = None


class Outer:
    class Inner(Callee):
        pass


def func(*a, **k):
    return Callee(*a, **k)


class CallSpec:
    def __init__(self, fn, args, kwargs, style):
        self.fn = fn
        self.args = args
        self.kwargs = kwargs
        self.style = style


def pretty_callspec(value, ctx):
    if value.style == 'call':
        return PP.pretty_call(ctx, value.fn, *value.args, **dict(value.kwargs))
    if value.style == 'alt-list':
        return PP.pretty_call_alt(ctx, value.fn, args=tuple(value.args), kwargs=list(value.kwargs))
    if value.style == 'alt-iter':
        # a one-shot iterator of pairs (what the bundled namedtuple / time printers pass)
        return PP.pretty_call_alt(ctx, value.fn, args=tuple(value.args),
                                  kwargs=((k, v) for k, v in list(value.kwargs)))
    if value.style == 'alt-odict':
        return PP.pretty_call_alt(ctx, value.fn, args=tuple(value.args), kwargs=OrderedDict(value.kwargs))
    return PP.pretty_call_alt(ctx, value.fn, args=tuple(value.args), kwargs=dict(value.kwargs))


_reg = [False]


def pretty_callee(value, ctx):
    return PP.pretty_call(ctx, type(value), *value.a, **dict(value.k))


def register():
    if not _reg[0]:
        PP.register_pretty(CallSpec)(pretty_callspec)
        PP.register_pretty(Callee)(pretty_callee)
        _reg[0] = True


ARG_POOLS = {
    'mixed': [[1, 2], 'two words', {'k': (1,)}],
    'scalars': [1, None, 2.5],
    'hug-tuple': [(1, 2), 'x', 3],
    'hug-dict': [{'a': 1, 'b': 2, 'c': 3}, [0], 'y'],
    'nested-call': [Callee(1, z=[2]), [Callee()], 'w'],
    'long-str': ['several words that make a long string argument for the call', 7, [1]],
    'callable-first': [func, (1, 2), [0]],
}
KW_NAMES = ['alpha', 'b', 'a_rather_long_keyword_name']
KW_VALUES = {
    'mixed': [3, [4, 5], 'kw words'],
    'scalars': [True, 0, 'v'],
    'hug-tuple': [(9,), 8, 7],
    'hug-dict': [{'z': 1}, 2, 3],
    'nested-call': [Callee(5), 6, 7],
    'long-str': ['another fairly long keyword string value', 1, 2],
    'callable-first': [Callee, func, 3],
}
CALLABLES = {'class': Callee, 'nested-class': Outer.Inner, 'function': func}


class CallCase(base.CaseBase):
    def __init__(self, params):
        super().__init__(params)
        register()
        self.pool = params['pool']
        self.style = params['style']
        self.fnname = params['callable']
        self.fn = CALLABLES[self.fnname]
        self.slice = params.get('slice', 'page')
        self.context = params.get('context', 'top')
        self.sort = params.get('sort', False)
        self.msl = params.get('max_seq_len', 1000)

    def pre(self, npos, nkw, w, rw):
        fix = self.params.get('fix')
        if fix is not None and (npos != fix[0] or nkw != fix[1]):
            return False
        return 0 <= npos and npos <= 3 and 0 <= nkw and nkw <= 3 and pfbase.slice_pre(self.slice, w, rw)

    def run(self, npos, nkw, w, rw):
        args = []
        for j in range(3):
            if npos > j:
                args.append(ARG_POOLS[self.pool][j])
        kwargs = []
        for j in range(3):
            if nkw > j:
                kwargs.append((KW_NAMES[j], KW_VALUES[self.pool][j]))
        spec = CallSpec(self.fn, args, kwargs, self.style)
        value = spec if self.context == 'top' else [0, spec]
        with warnings.catch_warnings(record=True) as wlist:
            warnings.simplefilter('always')
            try:
                if self.native:
                    text = pfbase.native_pformat(value, w, rw, sort_dict_keys=self.sort, max_seq_len=self.msl)
                else:
                    text = pfbase.ptext(value, w, rw, sort_dict_keys=self.sort, max_seq_len=self.msl)
            except Exception as e:
                exc = type(e).__name__
                return self.fail('C17:pformat-raises-' + exc, lambda: repr(e))
        with NoTracing():
            describe = lambda: 'callable=%s style=%s sort_dict_keys=%r args=%r kwargs=%r w=%r rw=%r\noutput:\n%s' % (
                self.fnname, self.style, self.sort, args, kwargs, w, rw, text)
            describe_old = lambda: 'callable=%s style=%s args=%r kwargs=%r w=%r rw=%r\noutput:\n%s' % (
                self.fnname, self.style, args, kwargs, w, rw, text)
            if wlist:
                return self.fail('C17:warning-emitted', lambda: describe() + '\n%r' % [str(x.message)[:300] for x in wlist])
            import vf
            ns = dict(pfbase.builtins_ns())
            ns['vf'] = vf
            try:
                tree = ast.parse('(' + text + '\n)', mode='eval').body
                got = pfbase.eval_text(text, ns)
            except Exception as e:
                return self.fail('C17:output-not-an-expression', describe)
            if self.context != 'top':
                tree = tree.elts[1]
                got = got[1]
            if not isinstance(tree, ast.Call):
                return self.fail('C17:not-a-call', describe)
            want_name = {'class': 'vf.props.c17.Callee', 'nested-class': 'vf.props.c17.Outer.Inner',
                         'function': 'vf.props.c17.func'}[self.fnname]
            if ast.unparse(tree.func) != want_name:
                return self.fail('C17:callable-name-wrong', describe)
            if [kw.arg for kw in tree.keywords] != [k for k, _ in kwargs]:
                return self.fail('C17:keyword-order-or-names-wrong', describe)
            if len(tree.args) != len(args):
                return self.fail('C17:positional-argument-count-wrong', describe)
            want = Callee(*args, **dict(kwargs))
            if self.msl == 1000 and not (got.a == want.a and got.k == want.k):
                return self.fail('C17:evaluation-performs-other-call', describe)
            # each argument printed exactly as it would be on its own
            for node, v in list(zip(tree.args, args)) + list(zip([kw.value for kw in tree.keywords], [x for _, x in kwargs])):
                own = ast.dump(ast.parse('(' + PKG.pformat(v, width=10 ** 6, ribbon_width=10 ** 6,
                                                             sort_dict_keys=self.sort,
                                                             max_seq_len=self.msl) + '\n)', mode='eval').body)
                if ast.dump(node) != own:
                    return self.fail('C17:argument-not-printed-as-on-its-own', describe)
            return True

    def run_native(self, a):
        return self.run(a['npos'], a['nkw'], a['w'], a['rw'])


def _pre_c(npos, nkw, w, rw):
    return CASE.pre(npos, nkw, w, rw)


def h_call(npos: int, nkw: int, w: int, rw: int) -> bool:
    """
    pre: _pre_c(npos, nkw, w, rw)
    post: _
    """
    return CASE.run(npos, nkw, w, rw)


def h_call_twin(npos: int, nkw: int, w: int, rw: int) -> bool:
    """
    pre: _pre_c(npos, nkw, w, rw)
    post: False
    """
    CASE.run(npos, nkw, w, rw)
    return True


# ---- field selection of the extras ------------------------------------------

FNAMES = ['fa', 'fb', 'fc']


class V:
    """Boxed (possibly symbolic) int used as field default / field value."""
    __slots__ = ('v',)

    def __init__(self, v):
        self.v = v

    def __eq__(self, other):
        return isinstance(other, V) and self.v == other.v

    def __ne__(self, other):
        return not self.__eq__(other)

    def __hash__(self):
        return id(self)

    def __repr__(self):
        return 'V(..)'      # never touches the (possibly symbolic) payload


class FieldsCase(base.CaseBase):
    """flags per field: repr (bool), mode 0 = no default, 1 = default value,
    2 = default factory."""

    def __init__(self, params):
        super().__init__(params)
        self.lib = params['lib']            # 'dataclasses' | 'attrs'
        self.nfields = params['nfields']
        self.frozen = params.get('frozen', False)
        self.slots = params.get('slots', False)
        self.decoy = params.get('decoy', False)
        self.modname = 'prettyprinter.extras.' + ('dataclasses' if self.lib == 'dataclasses' else 'attrs')
        self.mod = importlib.import_module(self.modname)

    def pre(self, reprs, modes, defaults, values):
        for k in range(3):
            if k < self.nfields:
                if not (0 <= modes[k] and modes[k] <= 2):
                    return False
                if not (-5 <= defaults[k] and defaults[k] <= 5 and -5 <= values[k] and values[k] <= 5):
                    return False
            else:
                if reprs[k] or modes[k] != 0 or defaults[k] != 0 or values[k] != 0:
                    return False
        return True

    def make_class(self, reprs, modes, defaults):
        # flags are concretised before they reach dataclasses / attr
        creprs = [True if r else False for r in reprs]
        cmodes = []
        for m in modes:
            cm = 0
            for j in (1, 2):
                if m == j:
                    cm = j
            cmodes.append(cm)
        if self.lib == 'dataclasses':
            fields = []
            for k in range(self.nfields):
                kw = {'repr': creprs[k], 'kw_only': True}
                if cmodes[k] == 1:
                    kw['default'] = defaults[k]
                elif cmodes[k] == 2:
                    kw['default_factory'] = (lambda d=defaults[k]: d)
                fields.append((FNAMES[k], int, dataclasses.field(**kw)))
            cls = dataclasses.make_dataclass('DC', fields, frozen=self.frozen, slots=self.slots)
        else:
            import attr
            attrs = {}
            for k in range(self.nfields):
                kw = {'repr': creprs[k], 'kw_only': True}
                if cmodes[k] == 1:
                    kw['default'] = defaults[k]
                elif cmodes[k] == 2:
                    kw['factory'] = (lambda d=defaults[k]: d)
                attrs[FNAMES[k]] = attr.ib(**kw)
            cls = attr.make_class('AT', attrs, frozen=self.frozen, slots=self.slots)
        return cls, creprs, cmodes

    def run(self, reprs, modes, defaults, values):
        # flags are concretised first (traced); the class itself is created
        # untraced: under the tracer dataclasses.make_dataclass works on
        # *copies* of the Field objects whose MISSING sentinel is a different
        # instance, which does not happen natively (a CrossHair artefact)
        creprs = [True if r else False for r in reprs]
        cmodes = []
        for m in modes:
            cm = 0
            for j in (1, 2):
                if m == j:
                    cm = j
            cmodes.append(cm)
        # symbolic ints are boxed so that the class machinery only stores
        # opaque objects; comparisons happen in V.__eq__/__ne__ (traced)
        defaults = [V(x) for x in defaults]
        values = [V(x) for x in values]
        with NoTracing():
            cls, creprs, cmodes = self.make_class(creprs, cmodes, defaults)
            inst = cls(**{FNAMES[k]: values[k] for k in range(self.nfields)})
        calls = []

        def rec_call(ctx, fn, *a, **k):
            calls.append((fn, a, list(k.items())))
            return 'recorded'

        def rec_call_alt(ctx, fn, args=(), kwargs=()):
            calls.append((fn, tuple(args), list(kwargs.items()) if isinstance(kwargs, dict) else list(kwargs)))
            return 'recorded'
        saved = {}
        for name, fn in (('pretty_call', rec_call), ('pretty_call_alt', rec_call_alt)):
            if hasattr(self.mod, name):
                saved[name] = getattr(self.mod, name)
                setattr(self.mod, name, fn)
        ctx = PP.PrettyContext(indent=4, depth_left=float('inf'))
        try:
            if self.decoy:
                # another class definition with the same module and name (a
                # re-definition / repeated make_dataclass) printed first
                with NoTracing():
                    dcls, _, _ = self.make_class([True] * 3, [0] * 3, [V(0)] * 3)
                    dinst = dcls(**{FNAMES[k]: V(99) for k in range(self.nfields)})
                try:
                    if self.lib == 'dataclasses':
                        self.mod.pretty_dataclass_instance(dinst, ctx)
                    else:
                        self.mod.pretty_attrs(dinst, ctx)
                except Exception as e:
                    return self.fail('C17:%s-printer-raises-%s' % (self.lib, type(e).__name__), lambda: repr(e))
                del calls[:]
            try:
                if self.lib == 'dataclasses':
                    if not self.mod.is_instance_of_dataclass(inst):
                        return self.fail('C17:dataclass-instance-not-recognised')
                    self.mod.pretty_dataclass_instance(inst, ctx)
                else:
                    if not self.mod.is_instance_of_attrs_class(inst):
                        return self.fail('C17:attrs-instance-not-recognised')
                    self.mod.pretty_attrs(inst, ctx)
            except Exception as e:
                exc = type(e).__name__
                return self.fail('C17:%s-printer-raises-%s' % (self.lib, exc), lambda: repr(e))
        finally:
            for name, fn in saved.items():
                setattr(self.mod, name, fn)
        if len(calls) != 1:
            return self.fail('C17:%s-not-one-call' % self.lib)
        fn, a, kws = calls[0]
        if fn is not cls or a:
            return self.fail('C17:%s-wrong-constructor-or-positional' % self.lib)
        expected = []
        for k in range(self.nfields):
            if not creprs[k]:
                continue
            if cmodes[k] == 0 or defaults[k].v != values[k].v:
                expected.append((FNAMES[k], values[k]))
        describe = lambda: 'lib=%s reprs=%r modes=%r defaults=%r values=%r\nrecorded=%r expected=%r' % (
            self.lib, creprs, cmodes, defaults, values, kws, expected)
        if [n for n, _ in kws] != [n for n, _ in expected]:
            return self.fail('C17:%s-wrong-fields-shown' % self.lib, describe)
        for (n1, v1), (n2, v2) in zip(kws, expected):
            if v1 is not v2:
                return self.fail('C17:%s-wrong-field-value' % self.lib, describe)
        return True

    def run_native(self, a):
        return self.run([a['r0'], a['r1'], a['r2']], [a['m0'], a['m1'], a['m2']],
                        [a['d0'], a['d1'], a['d2']], [a['v0'], a['v1'], a['v2']])


def _pre_f(reprs, modes, defaults, values):
    return CASE.pre(reprs, modes, defaults, values)


def h_fields(r0: bool, r1: bool, r2: bool, m0: int, m1: int, m2: int,
             d0: int, d1: int, d2: int, v0: int, v1: int, v2: int) -> bool:
    """
    pre: _pre_f([r0, r1, r2], [m0, m1, m2], [d0, d1, d2], [v0, v1, v2])
    post: _
    """
    return CASE.run([r0, r1, r2], [m0, m1, m2], [d0, d1, d2], [v0, v1, v2])


def h_fields_twin(r0: bool, r1: bool, r2: bool, m0: int, m1: int, m2: int,
                  d0: int, d1: int, d2: int, v0: int, v1: int, v2: int) -> bool:
    """
    pre: _pre_f([r0, r1, r2], [m0, m1, m2], [d0, d1, d2], [v0, v1, v2])
    post: False
    """
    CASE.run([r0, r1, r2], [m0, m1, m2], [d0, d1, d2], [v0, v1, v2])
    return True


# ---- module-level classes, evaluated back -----------------------------------

class InstanceCase(pfbase.CfgCase):
    def __init__(self, params):
        super().__init__(params)
        from vf import dcls
        dcls.install()
        self.src = params['value']
        import vf
        self.ns = dict(pfbase.builtins_ns())
        self.ns['vf'] = vf
        self.value = eval(self.src, dict(self.ns))

    def run(self, w, rw):
        with warnings.catch_warnings(record=True) as wlist:
            warnings.simplefilter('always')
            try:
                if self.native:
                    text = pfbase.native_pformat(self.value, w, rw)
                else:
                    text = pfbase.ptext(self.value, w, rw)
            except Exception as e:
                exc = type(e).__name__
                return self.fail('C17:pformat-raises-' + exc, lambda: repr(e))
        with NoTracing():
            describe = lambda: 'value=%s w=%r rw=%r\noutput:\n%s' % (self.src, w, rw, text)
            if wlist:
                return self.fail('C17:warning-emitted', lambda: describe() + '\n%r' % [str(x.message)[:300] for x in wlist])
            try:
                got = pfbase.eval_text(text, dict(self.ns))
            except Exception as e:
                return self.fail('C17:instance-output-does-not-evaluate', lambda: describe() + '\n' + repr(e))
            if not (type(got) is type(self.value) and got == self.value):
                return self.fail('C17:instance-reconstructs-unequal-object', describe)
            return True


FAMILIES = {
    'call': base.Family('call', h_call, h_call_twin, CallCase, _install),
    'fields': base.Family('fields', h_fields, h_fields_twin, FieldsCase, _install),
    'instances': pfbase.cfg_family('instances', InstanceCase),
}


def run_case(task):
    return base.generic_run_case(FAMILIES, task)


def replay_case(task):
    return base.generic_replay_case(FAMILIES, task)


THOROUGH_KEEP = {'*': 0.9}      # see vf/runner.py (time: about 10 minutes per thorough tier)


def cases(tier, seed):
    from vf import dcls
    out = []
    n = 0
    styles = ['call', 'alt-list', 'alt-odict', 'alt-dict', 'alt-iter']
    for pool in ARG_POOLS:
        for si, style in enumerate(styles):
            for ci, cname in enumerate(CALLABLES):
                n += 1
                if tier == 'quick' and (n % 4 != 0):
                    continue
                # all 16 argument-count combinations at the default configuration
                out.append({'name': 'call:%s:%s:%s|default%s' % (pool, style, cname, '|sorted' if n % 8 < 4 else ''), 'family': 'call',
                            'params': {'pool': pool, 'style': style, 'callable': cname, 'sort': n % 8 < 4,
                                       'context': 'top' if (n // 4) % 2 else 'elem', 'slice': 'default'},
                            'budget': 150.0 if tier == 'quick' else 400.0, 'path_timeout': 30.0,
                            'twin': n == 4})
                # symbolic width with the argument counts pinned
                fixes = [(n % 4, (n // 4) % 4)] if tier == 'quick' else [(1, 0), (0, 1), (2, 2), (3, 3), (1, 2)]
                for fx in fixes:
                    out.append({'name': 'call:%s:%s:%s|page|%d+%d' % (pool, style, cname, fx[0], fx[1]), 'family': 'call',
                                'params': {'pool': pool, 'style': style, 'callable': cname, 'fix': list(fx),
                                           'context': 'top' if (n // 4) % 2 else 'elem', 'slice': 'page'},
                                'budget': 150.0 if tier == 'quick' else 400.0, 'path_timeout': 30.0})
    # every argument is printed as on its own also under a small max_seq_len / None
    for pool in ('mixed', 'hug-dict'):
        for msl in (1, None):
            for style in ('call', 'alt-list'):
                out.append({'name': 'call:%s:%s:class|default|max_seq_len=%r' % (pool, style, msl), 'family': 'call',
                            'params': {'pool': pool, 'style': style, 'callable': 'class', 'max_seq_len': msl,
                                       'context': 'top', 'slice': 'default'},
                            'budget': 150.0, 'path_timeout': 30.0})
    for lib in ('dataclasses', 'attrs'):
        for nf in (1, 2, 3):
            variants = [(False, False)] if tier == 'quick' or nf < 3 else [(False, False), (True, False), (False, True), (True, True)]
            if tier == 'quick' and nf == 2:
                variants = [(False, False), (True, True)]
            for frozen, slots in variants:
                out.append({'name': 'fields:%s:n%d%s%s' % (lib, nf, ':frozen' if frozen else '', ':slots' if slots else ''),
                            'family': 'fields',
                            'params': {'lib': lib, 'nfields': nf, 'frozen': frozen, 'slots': slots},
                            'budget': 200.0 if tier == 'quick' else 900.0, 'path_timeout': 40.0,
                            'twin': nf == 1})
            if nf <= 2 or tier == 'thorough':
                out.append({'name': 'fields:%s:n%d:after-same-named-class' % (lib, nf), 'family': 'fields',
                            'params': {'lib': lib, 'nfields': nf, 'decoy': True},
                            'budget': 200.0 if tier == 'quick' else 900.0, 'path_timeout': 40.0})
    for i, src in enumerate(dcls.INSTANCES):
        out.append({'name': 'inst:%s' % src[:60], 'family': 'instances',
                    'params': {'value': src, 'slice': 'page'},
                    'budget': 90.0 if tier == 'quick' else 300.0, 'twin': i == 0})
    return out


def evidence(tier, seed, tasks, results):
    return {
        'coverage': {
            'bounds': {
                'call': 'number of positional (0..3) and keyword (0..3) arguments symbolic, width 1..200 symbolic; 6 argument pools x 4 call styles x 3 kinds of callables',
                'fields': '1..3 fields; per field: repr flag symbolic, default mode symbolic in {none, value, factory}, default and value symbolic ints in -5..5; dataclasses and attrs; frozen / slots variants',
                'instances': 'module-level dataclass and attrs classes (frozen, slots, nested, default factories), width 1..200 symbolic',
            },
            'outside_the_claim': 'non-int field types in the symbolic family; callables from __main__',
        },
        'assumptions': ['fields family: pretty_call / pretty_call_alt inside the extras module are rebound to recorders; flags are concretised before class creation',
                        'lemma L1; CrossHair; z3; eval / ast as oracle'],
    }
