"""C16 - colored output is the plain output plus well-nested styling.

Family 'value': cpprint into a pure-Python sink with colours forced on;
  (width, ribbon) symbolic for three styles, default configuration for every
  other style shipped with the installed pygments plus the two bundled ones.
Family 'doc': small annotated documents through colored_render_to_stream;
  the token ids of the annotations are symbolic (1..14, concretised), nesting
  skeletons up to depth 3 with non-token annotations inside / outside.
Oracle: an SGR state machine over what was written.
"""
import re
import warnings

from crosshair.tracers import NoTracing

import prettyprinter as PKG
from prettyprinter import color as COLOR
from prettyprinter import doc as D
from prettyprinter import layout as L
from prettyprinter.syntax import Token
from prettyprinter.sdoctypes import SLine, SAnnotationPush, SAnnotationPop
from vf import base, pfbase, stubs, trees
from vf.trees import L as LEAF

CASE = None


def _install(case):
    global CASE
    CASE = case
    pfbase.install(case)


CSI = re.compile(r'\x1b\[([0-9;]*)m')


def decode(text):
    """[(char, state)] for every non-escape character; state = (fg, bg, bold,
    italic, underline); also the final state.  None if a sequence is not SGR."""
    out = []
    state = (None, None, False, False, False)
    i = 0
    n = len(text)
    while i < n:
        ch = text[i]
        if ch == '\x1b':
            m = CSI.match(text, i)
            if not m:
                return None, None
            params = [int(p) if p else 0 for p in m.group(1).split(';')] if m.group(1) != '' else [0]
            fg, bg, bold, italic, ul = state
            j = 0
            while j < len(params):
                p = params[j]
                if p == 0:
                    fg, bg, bold, italic, ul = None, None, False, False, False
                elif p == 1:
                    bold = True
                elif p == 3:
                    italic = True
                elif p == 4:
                    ul = True
                elif p == 22:
                    bold = False
                elif p == 23:
                    italic = False
                elif p == 24:
                    ul = False
                elif p == 39:
                    fg = None
                elif p == 49:
                    bg = None
                elif p in (38, 48) and j + 4 < len(params) and params[j + 1] == 2:
                    rgb = (params[j + 2], params[j + 3], params[j + 4])
                    if p == 38:
                        fg = rgb
                    else:
                        bg = rgb
                    j += 4
                else:
                    return None, None
                j += 1
            state = (fg, bg, bold, italic, ul)
            i = m.end()
        else:
            out.append((ch, state))
            i += 1
    return out, state


def hex_rgb(h):
    if not h:
        return None
    h = h.lstrip('#')
    if len(h) == 3:
        h = ''.join(c * 2 for c in h)
    return (int(h[0:2], 16), int(h[2:4], 16), int(h[4:6], 16))


def expected_state(style, token):
    if token is None:
        return (None, None, False, False, False)
    a = style.style_for_token(COLOR._SYNTAX_TOKEN_TO_PYGMENTS_TOKEN[token])
    return (hex_rgb(a['color']), hex_rgb(a['bgcolor']), bool(a['bold']), bool(a['italic']), bool(a['underline']))


def expected_blanks(stream, style):
    """[(bgcolor, underline)] expected for every whitespace character written
    (blanks inside text, line breaks and indentation): the attributes that show
    on a blank are those of the innermost enclosing syntax token as well."""
    out = []
    stack = []

    def cur():
        for v in reversed(stack):
            if isinstance(v, Token):
                return expected_state(style, v)
        return expected_state(style, None)
    for x in stream:
        if isinstance(x, SAnnotationPush):
            stack.append(x.value)
        elif isinstance(x, SAnnotationPop):
            stack.pop()
        elif isinstance(x, str):
            st = cur()
            out.extend((st[1], st[4]) for ch in x if ch.isspace())
        elif isinstance(x, SLine):
            st = cur()
            out.extend([(st[1], st[4])] * (1 + x.indent))
    return out


def expected_chars(stream, style):
    """[(non-whitespace char, expected state)] from the annotation structure:
    the innermost enclosing *syntax token* decides; other annotations are
    transparent."""
    out = []
    stack = []
    for x in stream:
        if isinstance(x, SAnnotationPush):
            stack.append(x.value)
        elif isinstance(x, SAnnotationPop):
            stack.pop()
        elif isinstance(x, str):
            tok = None
            for v in reversed(stack):
                if isinstance(v, Token):
                    tok = v
                    break
            st = expected_state(style, tok)
            for ch in x:
                if not ch.isspace():
                    out.append((ch, st))
    return out


def resolve_style(name):
    import pygments.styles
    if name == 'dark':
        return COLOR.default_dark_style
    if name == 'light':
        return COLOR.default_light_style
    return pygments.styles.get_style_by_name(name)


def judge_colored(case, written, plain, stream, style, describe):
    chars, final = decode(written)
    if chars is None:
        return case.fail('C16:not-sgr-sequences', describe)
    stripped = ''.join(ch for ch, _ in chars)
    if stripped != plain:
        return case.fail('C16:stripped-text-differs-from-plain', lambda: describe() + '\nstripped=%r\nplain=%r' % (stripped, plain))
    if final != (None, None, False, False, False):
        return case.fail('C16:stream-does-not-end-in-reset', describe)
    got = [(ch, st) for ch, st in chars if not ch.isspace()]
    want = expected_chars(stream, style)
    if len(got) != len(want):
        return case.fail('C16:stripped-text-differs-from-plain', describe)
    for k, ((c1, s1), (c2, s2)) in enumerate(zip(got, want)):
        if c1 != c2:
            return case.fail('C16:stripped-text-differs-from-plain', describe)
        if s1 != s2:
            return case.fail('C16:character-not-in-style-of-innermost-token',
                             lambda: describe() + '\nchar #%d %r: shown %r, expected %r' % (k, c1, s1, s2))
    # blanks (incl. line breaks and indentation): background and underline show on them.
    # Trailing whitespace is trimmed by the renderer, so only as many blanks as
    # were written are compared, line by line from the left.
    gotb = [(st[1], st[4]) for ch, st in chars if ch.isspace()]
    wantb = expected_blanks(stream, style)
    if len(gotb) == len(wantb):
        for k, (g, w_) in enumerate(zip(gotb, wantb)):
            if g != w_:
                return case.fail('C16:blank-not-in-style-of-enclosing-token',
                                 lambda: describe() + '\nblank #%d: background/underline shown %r, expected %r' % (k, g, w_))
    return True


class ValueCase(pfbase.CfgCase):
    def __init__(self, params):
        super().__init__(params)
        self.stylename = params['style']
        if 'spec' in params:
            self.value = trees.build(params['spec'], True)
            self.label = trees.show(params['spec'])
        else:
            from vf.props.c07 import stdlib_ns
            from vf.props.c02 import register_box
            register_box()
            self.value = eval(params['src'], stdlib_ns())
            self.label = params['src']

    def run(self, w, rw):
        describe = lambda: 'value=%s style=%s w=%r rw=%r\nwritten=%r' % (self.label, self.stylename, w, rw, written)
        written = None
        try:
            style = resolve_style(self.stylename)
        except Exception as e:
            return self.fail('C16:style-not-loadable', lambda: repr(e))
        rib = stubs.ribbon_arg(rw, w, self.native)
        try:
            warm = self.params.get('warmup_style')
            if warm:
                # the same value rendered in another style first, same process
                PKG.cpprint(self.value, stream=stubs.Sink(), width=79, ribbon_width=71,
                            style=resolve_style(warm), end='')
            sink = stubs.Sink()
            PKG.cpprint(self.value, stream=sink, width=w, ribbon_width=rib, style=style, end='')
            written = sink.getvalue()
            sink2 = stubs.Sink()
            PKG.pprint(self.value, stream=sink2, width=w, ribbon_width=rib, end='')
            plain = sink2.getvalue()
            stream = list(PKG.python_to_sdocs(self.value, **PKG._merge_defaults(
                indent=PKG._UNSET_SENTINEL, width=w, depth=PKG._UNSET_SENTINEL, ribbon_width=rib,
                max_seq_len=PKG._UNSET_SENTINEL, sort_dict_keys=PKG._UNSET_SENTINEL)))
        except Exception as e:
            exc = type(e).__name__
            attrs = ''
            return self.fail('C16:rendering-raises-%s' % exc, lambda: 'value=%s style=%s: %r' % (self.label, self.stylename, e))
        with NoTracing():
            return judge_colored(self, written, plain, stream, style, describe)


# ---- annotated documents through the colored renderer ------------------------

class Other:
    def __repr__(self):
        return 'Other()'


OTHER = Other()

# values a non-token annotation may have: anything (annotate takes any object),
# including numbers equal to a Token's number and unhashable objects
OTHERS = {'obj': OTHER, 'int3': 3, 'true': True, 'float2': 2.0, 'str': 'note',
          'dict': {'k': 1}, 'list': [1], 'tuple': (Token.NUMBER_INT,), 'int0': 0}

# skeletons: 'T<n>' token annotation number n (symbolic id), 'O' other annotation
SKELETONS = {
    'flat': ['cat', 'a', ['T0', 'b'], 'c'],
    'nested2': ['T0', ['cat', 'a', ['T1', 'b'], 'c']],
    'nested3': ['T0', ['cat', 'a', ['T1', ['cat', 'b', ['T2', 'c'], 'd']], 'e']],
    'other-inside': ['T0', ['cat', 'a', ['O', 'b'], 'c']],
    'other-outside': ['O', ['cat', 'a', ['T0', 'b'], 'c']],
    'other-between': ['T0', ['cat', 'a', ['O', ['cat', 'b', ['T1', 'c'], 'd']], 'e']],
    'siblings': ['cat', ['T0', 'a'], ['T1', 'b'], 'x', ['T2', 'c']],
    'multiline': ['T0', ['cat', 'a', 'HARD', ['T1', ['cat', 'b', 'HARD', 'c']], 'HARD', 'd']],
    'same-token-nested': ['T0', ['cat', 'a', ['T0', 'b'], 'c']],
    'empty-token': ['cat', 'a', ['T0', ''], ['T1', 'b']],
    'other-only': ['O', ['cat', 'a', ['O', 'b']]],
    'group': ['T0', ['grp', ['cat', 'aa', 'LINE', ['T1', 'bb'], 'LINE', 'cc']]],
    'trailing-blank-in-token': ['cat', 'a', ['T0', 'x '], 'HARD', ['T1', ['cat', 'y', ['O', ' ']]]],
}


def build_doc(sk, tokens, other=OTHER):
    if isinstance(sk, str):
        if sk == 'HARD':
            return D.HARDLINE
        if sk == 'LINE':
            return D.LINE
        return sk
    head = sk[0]
    if head == 'cat':
        return D.concat([build_doc(c, tokens, other) for c in sk[1:]])
    if head == 'grp':
        return D.group(build_doc(sk[1], tokens, other))
    if head == 'O':
        return D.annotate(other, build_doc(sk[1], tokens, other))
    if head.startswith('T'):
        return D.annotate(tokens[int(head[1:])], build_doc(sk[1], tokens, other))
    raise ValueError(sk)


class DocCase(base.CaseBase):
    def __init__(self, params):
        super().__init__(params)
        self.skname = params['skeleton']
        self.sk = SKELETONS[self.skname]
        self.stylename = params.get('style', 'dark')
        self.other = OTHERS[params.get('other', 'obj')]
        self.ntok = 1 + max([int(x[1:]) for x in re.findall(r'T\d', repr(self.sk))] or [0])

    def pre(self, ids, w):
        for k, t in enumerate(ids):
            if k < self.ntok:
                if not (1 <= t and t <= 14):
                    return False
            elif t != 1:
                return False
        return 1 <= w and w <= 12

    def run(self, ids, w):
        members = list(Token)
        tokens = []
        for t in ids:
            tok = members[0]
            for m in members:
                if t == m.value:
                    tok = m
            tokens.append(tok)
        style = resolve_style(self.stylename)
        doc = build_doc(self.sk, tokens, self.other)
        frac = 1.0 if self.native else stubs.Frac(w, w)
        written = None
        describe = lambda: 'skeleton=%s tokens=%r other annotation=%r style=%s w=%r\nwritten=%r' % (
            self.skname, [t.name for t in tokens[:self.ntok]], self.other, self.stylename, w, written)
        try:
            stream = list(L.layout_smart(doc, width=w, ribbon_frac=frac))
            sink = stubs.Sink()
            COLOR.colored_render_to_stream(sink, list(stream), style=style)
            written = sink.getvalue()
            from prettyprinter.render import default_render_to_str
            plain = default_render_to_str(list(stream))
        except KeyError as e:
            return self.fail('C16:token-without-style-mapping', lambda: describe() + '\n' + repr(e))
        except Exception as e:
            exc = type(e).__name__
            return self.fail('C16:rendering-raises-%s' % exc, lambda: describe() + '\n' + repr(e))
        with NoTracing():
            return judge_colored(self, written, plain, stream, style, describe)

    def run_native(self, a):
        return self.run([a['t0'], a['t1'], a['t2']], a['w'])


def _pre_d(ids, w):
    return CASE.pre(ids, w)


def h_doc(t0: int, t1: int, t2: int, w: int) -> bool:
    """
    pre: _pre_d([t0, t1, t2], w)
    post: _
    """
    return CASE.run([t0, t1, t2], w)


def h_doc_twin(t0: int, t1: int, t2: int, w: int) -> bool:
    """
    pre: _pre_d([t0, t1, t2], w)
    post: False
    """
    CASE.run([t0, t1, t2], w)
    return True


def table_task(task):
    """Every syntax token the printers can emit has a style mapping, for every style."""
    import pygments.styles
    missing = [t.name for t in Token if t not in COLOR._SYNTAX_TOKEN_TO_PYGMENTS_TOKEN]
    if missing:
        return {'verdict': 'VIOLATION', 'key': 'C16:token-without-style-mapping', 'paths': 1,
                'detail': 'no pygments token for %r' % missing, 'params': {}, 'args': {}, 'family': 'table'}
    return {'verdict': 'CONFIRMED', 'paths': 1, 'message': 'all %d Token members are mapped' % len(list(Token))}


FAMILIES = {
    'value': pfbase.cfg_family('value', ValueCase),
    'doc': base.Family('doc', h_doc, h_doc_twin, DocCase, _install),
}


def run_case(task):
    return base.generic_run_case(FAMILIES, task)


def replay_case(task):
    if task.get('family') == 'table':
        r = table_task(task)
        return {'ok': r['verdict'] != 'VIOLATION', 'key': r.get('key'), 'detail': r.get('detail', ''), 'functions': [], 'known_hits': []}
    return base.generic_replay_case(FAMILIES, task)


VALUES = [
    {'src': "['plain', 'esc\\n\\t\\\\', b'by\\x00tes', 1, 2.5, None, True, ...]"},
    {'src': "{'key': [1, (2,)], 3: {4, 5}, 'long': 'a string long enough that it has to be split into pieces when narrow'}"},
    {'spec': ['list', [['c', 'a comment', LEAF('1')], ['tc', 'trailing words', ['list', [LEAF('2')]]]]]},
    {'src': "[vf.props.c02.Box([1], tag='x'), collections.OrderedDict([(1, 2)]), datetime.timedelta(days=-400, seconds=5)]"},
    {'src': "[sorted, dict, vf.stdvals.Shade.DARK, float('nan'), -1, frozenset([1]), vf.subcls.PlainInt(3)]"},
    {'src': "time.gmtime(0)"},
    {'spec': ['c', 'line one\nline two and some more words so that it wraps when narrow', ['list', [LEAF('1'), LEAF('2')]]]},
    # comments whose last line is blank / whitespace only, annotated text ending in a blank
    {'spec': ['list', [['c', 'text\n    ', LEAF('1')], ['c', '  ', LEAF("'elem'")], ['tc', 'tail \n ', ['list', [LEAF('2')]]]]]},
]


def all_styles():
    import pygments.styles
    return ['dark', 'light'] + sorted(pygments.styles.get_all_styles())


THOROUGH_KEEP = {'*': 0.55}      # see vf/runner.py (time: about 10 minutes per thorough tier)


def cases(tier, seed):
    out = []
    out.append({'name': 'token-table', 'kind': 'call', 'fn': 'table_task', 'family': 'table', 'params': {}})
    styles = all_styles()
    sym_styles = ['dark', 'light', 'default']
    for vi, v in enumerate(VALUES):
        for st in sym_styles:
            if tier == 'quick' and (vi + sym_styles.index(st)) % 3 != 0 and vi > 1:
                continue
            out.append({'name': 'value%d:%s|page' % (vi, st), 'family': 'value',
                        'params': dict(v, style=st, slice='page'),
                        'budget': 90.0 if tier == 'quick' else 500.0, 'path_timeout': 40.0,
                        'twin': vi == 0 and st == 'dark'})
        for si, st in enumerate(styles):
            if tier == 'quick' and (si + vi) % 3 != 0:
                continue
            out.append({'name': 'value%d:%s|default' % (vi, st), 'family': 'value',
                        'params': dict(v, style=st, slice='default'), 'budget': 60.0})
    # two styles one after the other in the same process (per-process caches)
    pairs = [('algol', 'algol_nu'), ('algol_nu', 'algol'), ('algol', 'bw'), ('default', 'dark'), ('light', 'default'),
             ('colorful', 'murphy'), ('bw', 'algol')]
    for a, b in (pairs if tier == 'thorough' else pairs[:4]):
        for vi in (0, 4):
            out.append({'name': 'value%d:%s-after-%s|default' % (vi, b, a), 'family': 'value',
                        'params': dict(VALUES[vi], style=b, warmup_style=a, slice='default'), 'budget': 60.0})
    for sk in SKELETONS:
        for st in (['dark'] if tier == 'quick' else ['dark', 'light', 'default']):
            out.append({'name': 'doc:%s:%s' % (sk, st), 'family': 'doc',
                        'params': {'skeleton': sk, 'style': st},
                        'budget': 100.0 if tier == 'quick' else 900.0, 'path_timeout': 40.0,
                        'twin': sk == 'flat'})
    # non-token annotations of other kinds (numbers equal to token numbers, unhashable objects, ...)
    others = [k for k in OTHERS if k != 'obj']
    osk = [sk for sk in SKELETONS if "'O'" in repr(SKELETONS[sk])]
    for j, ok in enumerate(others):
        for sk in (osk if tier != 'quick' else [osk[j % len(osk)], osk[(j + 2) % len(osk)]]):
            out.append({'name': 'doc:%s:dark:other=%s' % (sk, ok), 'family': 'doc',
                        'params': {'skeleton': sk, 'style': 'dark', 'other': ok},
                        'budget': 100.0 if tier == 'quick' else 600.0, 'path_timeout': 40.0})
    return out


def evidence(tier, seed, tasks, results):
    return {
        'coverage': {
            'bounds': {
                'styles': '%d styles: the two bundled ones and every style of the installed pygments' % len(all_styles()),
                'width': '1..200 symbolic (page slice) for the styles dark, light, default; default configuration for the others',
                'values': len(VALUES),
                'documents': 'skeletons %s with every token id 1..14 symbolic per annotation, page width 1..12 symbolic' % sorted(SKELETONS),
            },
            'outside_the_claim': 'the style dimension is enumerated (no solver variable); terminals without true colour (colour mode forced to true colour)',
        },
        'assumptions': ['COLORFUL_FORCE_TRUE_COLORS=1 (set by ./check); SGR decoder in vf/props/c16.py',
                        'whitespace characters are not compared for style (the renderer strips trailing blanks)',
                        'lemma L1; CrossHair; z3'],
    }
