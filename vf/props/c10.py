"""C10 - max_seq_len shows exactly the first N elements and says how many were dropped.

Symbolic: N = max_seq_len in 1..maxlen+2 (islice realises it: within the range
z3 enumerates N and proves the count arithmetic per value), page width.
Enumerated: container trees.  None and a huge limit are concrete cases.
"""
import re
import warnings

from crosshair.tracers import NoTracing

from vf import base, pfbase, trees
from vf.trees import L

CASE = None


def _install(case):
    global CASE
    CASE = case
    pfbase.install(case)


def seq(kind, n, start=0):
    return [kind, [L(str(start + i)) for i in range(n)]]


TREES = [
    ('list0', seq('list', 0)), ('list1', seq('list', 1)), ('list3', seq('list', 3)), ('list5', seq('list', 5)),
    ('tuple1', seq('tuple', 1)), ('tuple2', seq('tuple', 2)), ('tuple4', seq('tuple', 4)),
    ('set3', seq('set', 3)), ('fset3', seq('frozenset', 3)), ('fset1', seq('frozenset', 1)),
    ('dict1', ['dict', [[L('1'), L('10')]]]),
    ('dict2', ['dict', [[L('1'), L('10')], [L("'k'"), L('20')]]]),
    ('dict4', ['dict', [[L(str(i)), L(str(i * 10))] for i in range(4)]]),
    ('nested-ll', ['list', [seq('list', 3, 10), seq('list', 1, 20), seq('list', 4, 30)]]),
    ('nested-dl', ['dict', [[L('1'), seq('list', 3, 10)], [L('2'), seq('tuple', 2, 20)], [L('3'), seq('set', 2, 30)]]]),
    ('nested-ld', ['list', [['dict', [[L(str(i)), L(str(i))] for i in range(3)]], seq('tuple', 3, 40)]]),
    ('strs', ['list', [L("'a'"), L("'b'"), L("'c'")]]),
    ('deep', ['list', [['list', [seq('list', 3, 1), seq('list', 3, 5)]], seq('list', 2, 9)]]),
    ('box', ['box', [seq('list', 4)]]),
    ('box-kw', ['box', [seq('list', 4)], [['tag', seq('tuple', 3, 50)]]]),
    ('box-2args', ['list', [['box', [L('1')], [['tag', seq('list', 5, 60)]]]]]),
    ('falsy-later', ['list', [L('1'), L('2'), L('0'), L('3'), L('None'), L("''")]]),
    ('falsy-tuple', ['tuple', [['list', [L('1')]], ['list', []], ['list', [L('2')]], L('False')]]),
    ('falsy-set', ['set', [L('5'), L('0'), L('7')]]),
    ('set-unordered', ['set', [L('8'), L('1'), L('16'), L('3'), L('32')]]),
    ('fset-unordered', ['frozenset', [L('8'), L('1'), L('16'), L('3')]]),
    ('set-strs', ['set', [L("'pear'"), L("'apple'"), L("'fig'"), L("'kiwi'")]]),
    ('dict-of-sets', ['dict', [[L('1'), ['set', [L('24'), L('8'), L('1')]]], [L('2'), seq('list', 3)]]]),
]

NOTICE = re.compile(r'\.\.\.and (\d+) more elements')


def truncate(v, n):
    """Reference: first n elements at every level; returns (value, [dropped
    counts of every over-long container that is printed])."""
    from vf.props.c02 import Box
    drops = []

    def walk(x):
        if isinstance(x, Box):
            return Box(walk(x.x), tag=None if x.tag is None else walk(x.tag))
        if isinstance(x, dict):
            items = list(x.items())
            if n is not None and len(items) > n:
                drops.append(len(items) - n)
                items = items[:n]
            return {k: walk(val) for k, val in items}
        if isinstance(x, (list, tuple, set, frozenset)):
            items = list(x)
            if n is not None and len(items) > n:
                drops.append(len(items) - n)
                items = items[:n]
            return type(x)(walk(y) for y in items)
        return x
    return walk(v), drops


def max_len(v):
    from vf.props.c02 import Box
    if isinstance(v, Box):
        return max_len(v.x)
    if isinstance(v, dict):
        return max([len(v)] + [max_len(x) for x in v.values()])
    if isinstance(v, (list, tuple, set, frozenset)):
        return max([len(v)] + [max_len(x) for x in v])
    return 0


class SeqLenCase(base.CaseBase):
    def __init__(self, params):
        super().__init__(params)
        self.spec = params['spec']
        self.value = trees.build(self.spec)
        self.slice = params.get('slice', 'page')
        self.fixed_n = params.get('n', 'sym')      # 'sym' | None | int
        self.maxn = max_len(self.value) + 2

    def pre(self, n, w, rw):
        if self.fixed_n == 'sym':
            if not (1 <= n and n <= self.maxn):
                return False
        elif n != 0:
            return False
        return pfbase.slice_pre(self.slice, w, rw)

    def run(self, n, w, rw):
        if self.fixed_n != 'sym':
            n = self.fixed_n
        elif not self.native:
            # islice() realises N anyway; do it up front so that the text of
            # the truncation notice is concrete on every path
            for j in range(1, self.maxn + 1):
                if n == j:
                    n = j
                    break
        with warnings.catch_warnings(record=True) as wlist:
            warnings.simplefilter('always')
            try:
                if self.native:
                    text = pfbase.native_pformat(self.value, w, rw, max_seq_len=n)
                else:
                    text = pfbase.ptext(self.value, w, rw, max_seq_len=n)
            except Exception as e:
                exc = type(e).__name__
                return self.fail('C10:pformat-raises-' + exc, lambda: '%s: %s' % (exc, e))
        with NoTracing():
            return self.judge(text, n, w, rw, wlist)

    def judge(self, text, n, w, rw, wlist):
        describe = lambda: 'value=%s max_seq_len=%r w=%r rw=%r\noutput:\n%s' % (
            trees.show(self.spec), n, w, rw, text)
        if any(issubclass(x.category, UserWarning) for x in wlist):
            if n is None:
                return self.fail('C10:max_seq_len-None-degrades-to-repr', describe)
            return self.fail('C10:warning-emitted', describe)
        want, drops = truncate(self.value, n)
        import vf
        ns = dict(pfbase.builtins_ns())
        ns['vf'] = vf
        try:
            got = pfbase.eval_text(text, ns)
        except Exception:
            return self.fail('C10:output-not-an-expression', describe)
        if not (type(got) is type(want) and got == want and pfbase.strict_eq(_unbox(got), _unbox(want))):
            return self.fail('C10:not-the-first-N-elements', describe)
        try:
            code, comments = pfbase.split_tokens(text)
        except Exception:
            return self.fail('C10:output-does-not-tokenize', describe)
        # the notice is a comment and may itself be broken over several lines
        words = []
        for c in comments:
            words.extend(c.lstrip('#').split())
        stated = [int(m.group(1)) for m in NOTICE.finditer(' '.join(words))]
        if sorted(stated) != sorted(drops):
            return self.fail('C10:truncation-notice-wrong', lambda: describe() + '\nstated=%r expected=%r' % (stated, drops))
        if n is None or n >= 10 ** 6:
            if comments:
                return self.fail('C10:comment-without-truncation', describe)
        return True

    def run_native(self, args):
        return self.run(args['n'], args['w'], args['rw'])


def _unbox(v):
    from vf.props.c02 import Box
    if isinstance(v, Box):
        return ('Box', _unbox(v.x), v.tag)
    return v


def _pre(n, w, rw):
    return CASE.pre(n, w, rw)


def h_seqlen(n: int, w: int, rw: int) -> bool:
    """
    pre: _pre(n, w, rw)
    post: _
    """
    return CASE.run(n, w, rw)


def h_seqlen_twin(n: int, w: int, rw: int) -> bool:
    """
    pre: _pre(n, w, rw)
    post: False
    """
    CASE.run(n, w, rw)
    return True


class NoneEqualsHugeCase(pfbase.CfgCase):
    """max_seq_len=None gives the text of a limit larger than every container."""

    def __init__(self, params):
        super().__init__(params)
        self.spec = params['spec']
        self.value = trees.build(self.spec) if self.spec[0] != 'range' else list(range(self.spec[1]))
        self.lowered = params.get('lowered_default')
        # other options given alongside (none of them truncates these values)
        self.opts = dict(params.get('opts') or {})

    def run(self, w, rw):
        import prettyprinter as PKG
        saved = dict(PKG._default_config)
        try:
            if self.lowered is not None:
                PKG.set_default_config(max_seq_len=self.lowered)
            return self.run_inner(w, rw)
        finally:
            PKG._default_config = saved

    def run_inner(self, w, rw):
        with warnings.catch_warnings(record=True) as wlist:
            warnings.simplefilter('always')
            try:
                if self.native:
                    a = pfbase.native_pformat(self.value, w, rw, max_seq_len=None, **self.opts)
                    b = pfbase.native_pformat(self.value, w, rw, max_seq_len=10 ** 6, **self.opts)
                else:
                    a = pfbase.ptext(self.value, w, rw, max_seq_len=None, **self.opts)
                    b = pfbase.ptext(self.value, w, rw, max_seq_len=10 ** 6, **self.opts)
            except Exception as e:
                exc = type(e).__name__
                return self.fail('C10:pformat-raises-' + exc, lambda: '%s: %s' % (exc, e))
        with NoTracing():
            label = trees.show(self.spec) if self.spec[0] != 'range' else 'list(range(%d))' % self.spec[1]
            if any(issubclass(x.category, UserWarning) for x in wlist):
                return self.fail('C10:max_seq_len-None-degrades-to-repr',
                                 lambda: 'value=%s other options=%r\nNone:\n%s\n10**6:\n%s' % (label, self.opts, a[:2000], b[:2000]))
            if a != b:
                return self.fail('C10:None-differs-from-huge-limit',
                                 lambda: 'value=%s default max_seq_len=%r\nNone:\n...%s\n10**6:\n...%s' % (
                                     label, self.lowered, a[-300:], b[-300:]))
            return True


FAMILIES = {
    'seqlen': base.Family('seqlen', h_seqlen, h_seqlen_twin, SeqLenCase, _install),
    'none': pfbase.cfg_family('none', NoneEqualsHugeCase),
}


def run_case(task):
    return base.generic_run_case(FAMILIES, task)


def replay_case(task):
    return base.generic_replay_case(FAMILIES, task)


def _keys_comparable(v):
    from vf.props.c02 import Box
    if isinstance(v, dict):
        try:
            sorted(v.keys())
        except TypeError:
            return False
        return all(_keys_comparable(k) and _keys_comparable(x) for k, x in v.items())
    if isinstance(v, (list, tuple, set, frozenset)):
        return all(_keys_comparable(x) for x in v)
    if isinstance(v, Box):
        return _keys_comparable(v.x) and _keys_comparable(v.tag)
    return True


def cases(tier, seed):
    out = []
    for i, (name, spec) in enumerate(TREES):
        out.append({'name': 'N-symbolic:%s' % name, 'family': 'seqlen',
                    'params': {'spec': spec, 'n': 'sym', 'slice': 'page'},
                    'budget': 100.0 if tier == 'quick' else 400.0, 'path_timeout': 30.0,
                    'twin': i == 2})
        out.append({'name': 'N-None:%s' % name, 'family': 'seqlen',
                    'params': {'spec': spec, 'n': None, 'slice': 'page'}, 'budget': 60.0})
        out.append({'name': 'N-huge:%s' % name, 'family': 'seqlen',
                    'params': {'spec': spec, 'n': 10 ** 6, 'slice': 'page'}, 'budget': 60.0})
        out.append({'name': 'None==huge:%s' % name, 'family': 'none',
                    'params': {'spec': spec, 'slice': 'page'}, 'budget': 60.0})
        if i % 2 == 0 or tier == 'thorough':
            out.append({'name': 'None==huge:%s:default-lowered-to-%d' % (name, 1 + i % 3), 'family': 'none',
                        'params': {'spec': spec, 'slice': 'page', 'lowered_default': 1 + i % 3}, 'budget': 60.0})
        optsets = [{'depth': 30}, {'sort_dict_keys': True, 'indent': 2}, {'depth': 30, 'sort_dict_keys': True}]
        if not _keys_comparable(trees.build(spec)):
            # sorting mutually incomparable keys orders them by id() of temporaries:
            # not deterministic across paths (DESIGN.md 6)
            optsets = [o for o in optsets if not o.get('sort_dict_keys')] + [{'depth': 30, 'indent': 2}]
        if tier == 'thorough' or i % 3 == 1:
            o = optsets[(i // 3) % len(optsets)] if tier == 'quick' else None
            for o in ([o] if o else optsets):
                out.append({'name': 'None==huge:%s:with-%s' % (name, '+'.join(sorted(o))), 'family': 'none',
                            'params': {'spec': spec, 'slice': 'page', 'opts': o}, 'budget': 60.0})
        if tier == 'thorough':
            out.append({'name': 'N-symbolic:%s|ribbon' % name, 'family': 'seqlen',
                        'params': {'spec': spec, 'n': 'sym', 'slice': 'ribbon'}, 'budget': 400.0})
            out.append({'name': 'N-symbolic:%s|narrow' % name, 'family': 'seqlen',
                        'params': {'spec': spec, 'n': 'sym', 'slice': 'narrow'}, 'budget': 400.0})
    # containers longer than the stock default of 1000 (default configuration, concrete)
    for n in ([1001] if tier == 'quick' else [1000, 1001, 1500]):
        out.append({'name': 'None==huge:list(range(%d))' % n, 'family': 'none',
                    'params': {'spec': ['range', n], 'slice': 'default'}, 'budget': 200.0, 'path_timeout': 120.0})
    return out


def evidence(tier, seed, tasks, results):
    return {
        'coverage': {
            'bounds': {
                'max_seq_len': 'symbolic 1..(longest container + 2) per tree; None and 10**6 as concrete cases; None also after set_default_config(max_seq_len=1..3) and on lists of 1001 elements',
                'width': '1..200 symbolic (page slice)' + ('; ribbon and narrow slices' if tier == 'thorough' else ''),
                'trees': [n for n, _ in TREES],
            },
            'outside_the_claim': 'N is realised by itertools.islice (C code): within the bounded range the solver enumerates N; containers longer than 5',
        },
        'assumptions': ['set iteration order is the order of list(value) in this process',
                        'lemma L1; CrossHair; z3; eval / tokenize as oracle'],
    }
