"""C14 - a failing printer is contained at the value it was printing.

Symbolic: the index i of the printer invocation that raises (1..n+1, n+1 = no
fault), the exception class selector, page width.  Enumerated: trees of
instrumented user objects, trailing-comment variants.
The printers run traced (the fault decision is symbolic).
"""
import ast
import warnings

from crosshair.tracers import NoTracing

import prettyprinter as PKG
from vf import base, pfbase
from vf.pfbase import PP

CASE = None


def _install(case):
    global CASE
    CASE = case


class CustomError(Exception):
    pass


class CustomLookup(LookupError):
    pass


class CustomWarning(UserWarning):
    pass


EXCS = [ValueError, TypeError, KeyError, AttributeError, ZeroDivisionError,
        CustomError, CustomLookup, RuntimeError, IndexError, StopIteration, OSError, AssertionError,
        # Warning classes derive from Exception as well
        DeprecationWarning, CustomWarning]


class State:
    count = 0
    fault_at = 0
    sel = 0


class Node:
    def __init__(self, ident, *children):
        self.ident = ident
        self.children = children

    def __repr__(self):
        return 'NODE_%d' % self.ident


class NodeTC(Node):
    """Same, but its printer accepts the trailing_comment keyword."""


class LazyBase(Node):
    """Its printer is registered *by qualified name* (promoted on first use)."""


class LazyNode(LazyBase):
    """Instances of this subclass are what gets printed."""


class DictNode(dict):
    """A dict subclass that keeps the built-in __repr__ (keys in insertion order)."""
    ident = 0


class ListNode(list):
    """A list subclass that keeps the built-in __repr__."""
    ident = 0


def _raise_selected(sel):
    # explicit chain: a symbolic index into a list of classes is unsupported
    # the message contains format-string metacharacters on purpose
    for j in range(len(EXCS)):
        if sel == j:
            raise EXCS[j]('injected fault {0} {name} }{ %s %(x)s', {'k': {1, 2}})
    raise EXCS[0]('injected fault {0} {name} }{ %s %(x)s')


def pretty_node(value, ctx):
    State.count += 1
    if State.count == State.fault_at:
        _raise_selected(State.sel)
    return PP.pretty_call(ctx, type(value), *value.children)


def pretty_dnode(value, ctx):
    State.count += 1
    if State.count == State.fault_at:
        _raise_selected(State.sel)
    with NoTracing():          # (under the tracer dict(x) would be a CrossHair proxy, not a dict)
        plain = dict(value)
    return PP.pretty_call(ctx, type(value), plain)


def pretty_lnode(value, ctx):
    State.count += 1
    if State.count == State.fault_at:
        _raise_selected(State.sel)
    with NoTracing():
        plain = list(value)
    return PP.pretty_call(ctx, type(value), plain)


def pretty_node_tc(value, ctx, trailing_comment=None):
    State.count += 1
    if State.count == State.fault_at:
        _raise_selected(State.sel)
    return PP.pretty_call(ctx, type(value), *value.children)


_registered = [False]


def pretty_by_predicate(value, ctx):
    return 'PRINTED_BY_PREDICATE'


def register():
    if not _registered[0]:
        PP.register_pretty(Node)(pretty_node)
        PP.register_pretty(NodeTC)(pretty_node_tc)
        PP.register_pretty(DictNode)(pretty_dnode)
        PP.register_pretty(ListNode)(pretty_lnode)
        # a predicate-registered printer that would also accept the nodes
        # (predicates are only consulted for unregistered types: it must never
        # be used for a Node, failing or not)
        PP.register_pretty(predicate=lambda v: isinstance(v, Node))(pretty_by_predicate)
        _registered[0] = True
    # (re-)register the by-name printer whenever it is neither pending nor promoted
    if LazyBase not in PP.pretty_dispatch.registry and \
            'vf.props.c14.LazyBase' not in PP._DEFERRED_DISPATCH_BY_NAME:
        PP.register_pretty('vf.props.c14.LazyBase')(pretty_node)


# tree specs: ['node', id, [children]] | ['nodetc', id, [children]] | ['tc', text, spec]
# | ['list', [..]] | ['dict', [[key src, spec]..]] | ['int', n]

def build(spec, memo=None):
    if memo is None:
        memo = {}
    k = spec[0]
    if k in ('node', 'nodetc', 'lazynode'):
        cls = {'node': Node, 'nodetc': NodeTC, 'lazynode': LazyNode}[k]
        o = cls(spec[1], *[build(c, memo) for c in spec[2]])
        memo[spec[1]] = (o, spec)
        return o
    if k == 'dnode':
        o = DictNode((key, build(c, memo)) for key, c in spec[2])
        o.ident = spec[1]
        memo[spec[1]] = (o, spec)
        return o
    if k == 'lnode':
        o = ListNode(build(c, memo) for c in spec[2])
        o.ident = spec[1]
        memo[spec[1]] = (o, spec)
        return o
    if k == 'ref':                      # the very same object again (sharing, no cycle)
        return memo[spec[1]][0]
    if k == 'tc':
        return PKG.trailing_comment(build(spec[2], memo), spec[1])
    if k == 'c':
        return PKG.comment(build(spec[2], memo), spec[1])
    if k == 'list':
        return [build(c, memo) for c in spec[1]]
    if k == 'tuple':
        return tuple(build(c, memo) for c in spec[1])
    if k == 'dict':
        return {key: build(c, memo) for key, c in spec[1]}
    if k == 'int':
        return spec[1]
    raise ValueError(spec)


def resolve_refs(spec, memo=None):
    """The tree with every ['ref', id] replaced by the spec of node id (the
    printers see an ordinary occurrence of that node)."""
    if memo is None:
        memo = {}
    k = spec[0]
    if k in ('node', 'nodetc', 'lazynode'):
        out = [k, spec[1], [resolve_refs(c, memo) for c in spec[2]]]
        memo[spec[1]] = out
        return out
    if k == 'dnode':
        out = [k, spec[1], [[key, resolve_refs(c, memo)] for key, c in spec[2]]]
        memo[spec[1]] = out
        return out
    if k == 'lnode':
        out = [k, spec[1], [resolve_refs(c, memo) for c in spec[2]]]
        memo[spec[1]] = out
        return out
    if k == 'ref':
        return memo[spec[1]]
    if k in ('tc', 'c'):
        return [k, spec[1], resolve_refs(spec[2], memo)]
    if k in ('list', 'tuple'):
        return [k, [resolve_refs(c, memo) for c in spec[1]]]
    if k == 'dict':
        return [k, [[key, resolve_refs(c, memo)] for key, c in spec[1]]]
    return spec


def preorder(spec, out):
    k = spec[0]
    if k in ('node', 'nodetc', 'lazynode'):
        out.append(spec[1])
        for c in spec[2]:
            preorder(c, out)
    elif k == 'dnode':
        out.append(spec[1])
        for key, c in spec[2]:
            preorder(c, out)
    elif k == 'lnode':
        out.append(spec[1])
        for c in spec[2]:
            preorder(c, out)
    elif k in ('tc', 'c'):
        preorder(spec[2], out)
    elif k in ('list', 'tuple'):
        for c in spec[1]:
            preorder(c, out)
    elif k == 'dict':
        for key, c in spec[1]:
            preorder(c, out)
    return out


def expected_src(spec, failed_occurrence, counter=None):
    """Source of the expected output when the printer invocation number
    ``failed_occurrence`` (1-based, pre-order; None = no fault) raised: that
    occurrence alone is replaced by the repr, its children are not visited."""
    if counter is None:
        counter = [0]
    k = spec[0]
    if k in ('node', 'nodetc', 'lazynode'):
        counter[0] += 1
        if counter[0] == failed_occurrence:
            return 'NODE_%d' % spec[1]
        name = 'vf.props.c14.' + {'node': 'Node', 'nodetc': 'NodeTC', 'lazynode': 'LazyNode'}[k]
        return '%s(%s)' % (name, ', '.join(expected_src(c, failed_occurrence, counter) for c in spec[2]))
    if k in ('dnode', 'lnode'):
        counter[0] += 1
        if counter[0] == failed_occurrence:
            return repr_src(spec)
        if k == 'dnode':
            return 'vf.props.c14.DictNode({%s})' % ', '.join(
                '%r: %s' % (key, expected_src(c, failed_occurrence, counter)) for key, c in spec[2])
        return 'vf.props.c14.ListNode([%s])' % ', '.join(
            expected_src(c, failed_occurrence, counter) for c in spec[2])
    if k in ('tc', 'c'):
        return expected_src(spec[2], failed_occurrence, counter)
    if k == 'list':
        return '[' + ', '.join(expected_src(c, failed_occurrence, counter) for c in spec[1]) + ']'
    if k == 'tuple':
        return '(' + ', '.join(expected_src(c, failed_occurrence, counter) for c in spec[1]) + (',' if len(spec[1]) == 1 else '') + ')'
    if k == 'dict':
        return '{' + ', '.join('%r: %s' % (key, expected_src(c, failed_occurrence, counter)) for key, c in spec[1]) + '}'
    if k == 'int':
        return repr(spec[1])


def repr_src(spec):
    """Source text of repr(value) for the object built from ``spec`` (the
    built-in reprs of dict / list / tuple / int, NODE_n for the nodes)."""
    k = spec[0]
    if k in ('node', 'nodetc', 'lazynode'):
        return 'NODE_%d' % spec[1]
    if k == 'dnode':
        return '{' + ', '.join('%r: %s' % (key, repr_src(c)) for key, c in spec[2]) + '}'
    if k == 'lnode':
        return '[' + ', '.join(repr_src(c) for c in spec[2]) + ']'
    if k in ('tc', 'c'):
        return repr_src(spec[2])
    if k == 'list':
        return '[' + ', '.join(repr_src(c) for c in spec[1]) + ']'
    if k == 'tuple':
        return '(' + ', '.join(repr_src(c) for c in spec[1]) + (',' if len(spec[1]) == 1 else '') + ')'
    if k == 'dict':
        return '{' + ', '.join('%r: %s' % (key, repr_src(c)) for key, c in spec[1]) + '}'
    if k == 'int':
        return repr(spec[1])
    raise ValueError(spec)


def tc_nodes(spec, out, under_tc=False):
    """ids of nodes that directly carry a trailing comment"""
    k = spec[0]
    if k == 'tc':
        inner = spec[2]
        while inner[0] in ('tc', 'c'):
            inner = inner[2]
        if inner[0] in ('node', 'nodetc', 'lazynode', 'dnode', 'lnode'):
            out.add(inner[1])
        tc_nodes(spec[2], out)
    elif k == 'c':
        tc_nodes(spec[2], out)
    elif k in ('node', 'nodetc', 'lazynode', 'lnode'):
        for c in spec[2]:
            tc_nodes(c, out)
    elif k == 'dnode':
        for key, c in spec[2]:
            tc_nodes(c, out)
    elif k in ('list', 'tuple'):
        for c in spec[1]:
            tc_nodes(c, out)
    elif k == 'dict':
        for key, c in spec[1]:
            tc_nodes(c, out)
    return out


class FaultCase(base.CaseBase):
    def __init__(self, params):
        super().__init__(params)
        register()
        self.rawspec = params['spec']
        self.spec = resolve_refs(self.rawspec)
        self.slice = params.get('slice', 'default')
        self.order = preorder(self.spec, [])
        self.n = len(self.order)
        self.tc_ids = tc_nodes(self.spec, set())
        self.value = build(self.rawspec)
        State.count, State.fault_at = 0, 0
        with warnings.catch_warnings():
            warnings.simplefilter('ignore')
            self.baseline = PKG.pformat(self.value)

    def pre(self, i, sel, w, rw):
        return (1 <= i and i <= self.n + 1 and 0 <= sel and sel < len(EXCS) and
                pfbase.slice_pre(self.slice, w, rw))

    def run(self, i, sel, w, rw):
        with NoTracing():
            # back to "registered by name, not promoted yet" for the lazy classes
            from vf.props import c15
            cells = c15._cells()
            cells['registry'].pop(LazyBase, None)
            cells['registry'].pop(LazyNode, None)
            cells['dispatch_cache'].clear()
            PP._DEFERRED_DISPATCH_BY_NAME['vf.props.c14.LazyBase'] = pretty_node
        State.count, State.fault_at, State.sel = 0, i, sel
        with warnings.catch_warnings(record=True) as wlist:
            warnings.simplefilter('always')
            try:
                if self.native:
                    text = pfbase.native_pformat(self.value, w, rw)
                else:
                    text = pfbase.ptext(self.value, w, rw, traced_printers=True)
            except Exception as e:
                exc = type(e).__name__
                State.fault_at = 0
                failed_id = None
                for j in range(self.n):
                    if i == j + 1:
                        failed_id = self.order[j]
                if failed_id in self.tc_ids:
                    return self.fail('C14:fault-under-trailing-comment-escapes-pformat',
                                     lambda: '%s: %s (fault %d, exception %s)' % (exc, e, i, EXCS[sel].__name__))
                return self.fail('C14:fault-escapes-pformat',
                                 lambda: '%s: %s (fault %d)' % (exc, e, i))
        State.fault_at = 0
        # which node failed: explicit chain keeps everything below concrete
        failed = None
        failed_occ = None
        for j in range(self.n):
            if i == j + 1:
                failed = self.order[j]
                failed_occ = j + 1
                break
        with NoTracing():
            describe = lambda: 'tree=%r fault at invocation %r (node %r), exception %s, w=%r\noutput:\n%s\nwarnings=%r' % (
                self.spec, i, failed, EXCS[sel].__name__, w, text, [str(x.message)[:200] for x in wlist])
            bad = [x for x in wlist if 'raised an exception' in str(x.message)]
            if failed is None:
                if bad:
                    return self.fail('C14:warning-without-fault', describe)
            else:
                if len(bad) != 1:
                    return self.fail('C14:not-exactly-one-warning', describe)
                msg = str(bad[0].message)
                if not issubclass(bad[0].category, UserWarning) or not ('pretty_node' in msg or 'pretty_dnode' in msg or 'pretty_lnode' in msg):
                    return self.fail('C14:warning-does-not-name-printer', describe)
            try:
                got = ast.dump(ast.parse('(' + text + '\n)', mode='eval'))
            except SyntaxError:
                return self.fail('C14:output-not-an-expression', describe)
            want = ast.dump(ast.parse('(' + expected_src(self.spec, failed_occ) + '\n)', mode='eval'))
            if got != want:
                return self.fail('C14:other-parts-of-output-changed', describe)
        # the same faulty print once more: reported again, same output
        if failed is not None and self.params.get('repeat', True):
            sel_c = 0
            for j in range(len(EXCS)):
                if sel == j:
                    sel_c = j
            State.count, State.fault_at, State.sel = 0, failed_occ, sel_c
            with warnings.catch_warnings(record=True) as w3:
                warnings.simplefilter('always')
                try:
                    if self.native:
                        text3 = PKG.pformat(self.value, width=w, ribbon_width=rw)
                    else:
                        with NoTracing():
                            text3 = PKG.pformat(self.value)
                except Exception as e:
                    State.fault_at = 0
                    return self.fail('C14:repeated-fault-escapes-pformat', lambda: repr(e))
            State.fault_at = 0
            with NoTracing():
                bad3 = [x for x in w3 if 'raised an exception' in str(x.message)]
                if len(bad3) != 1:
                    return self.fail('C14:repeated-fault-not-reported',
                                     lambda: describe() + '\nsecond faulty print: %d warnings' % len(bad3))
        # a following fault-free print is unaffected
        State.count = 0
        with warnings.catch_warnings(record=True) as w2:
            warnings.simplefilter('always')
            try:
                again = PKG.pformat(self.value) if self.native else None
                if again is None:
                    with NoTracing():
                        again = PKG.pformat(self.value)
            except Exception as e:
                return self.fail('C14:later-call-raises', lambda: repr(e))
        if again != self.baseline or any('raised an exception' in str(x.message) for x in w2):
            return self.fail('C14:later-call-affected', lambda: '%s\nvs baseline\n%s' % (again, self.baseline))
        return True

    def run_native(self, args):
        return self.run(args['i'], args['sel'], args['w'], args['rw'])


def _pre(i, sel, w, rw):
    return CASE.pre(i, sel, w, rw)


def h_fault(i: int, sel: int, w: int, rw: int) -> bool:
    """
    pre: _pre(i, sel, w, rw)
    post: _
    """
    return CASE.run(i, sel, w, rw)


def h_fault_twin(i: int, sel: int, w: int, rw: int) -> bool:
    """
    pre: _pre(i, sel, w, rw)
    post: False
    """
    CASE.run(i, sel, w, rw)
    return True


# ---- a printer returning neither str nor Doc -------------------------------

class BadReturn:
    def __init__(self, what):
        self.what = what


def pretty_badreturn(value, ctx):
    w = value.what
    if w == 0:
        return None
    if w == 1:
        return 42
    if w == 2:
        return ['a']
    if w == 3:
        return b'bytes'
    return 'fine'


_bad_registered = [False]


class BadReturnCase(base.CaseBase):
    def __init__(self, params):
        super().__init__(params)
        if not _bad_registered[0]:
            PP.register_pretty(BadReturn)(pretty_badreturn)
            _bad_registered[0] = True

    def pre(self, what, nest):
        return 0 <= what and what <= 4 and 0 <= nest and nest <= 2

    def run(self, what, nest):
        inner = BadReturn(what)
        v = inner
        for j in range(2):
            if nest > j:
                v = [v]
        ok = self.first_print(v, what, nest)
        if ok is not True:
            return ok
        return self.after(v, inner)

    def first_print(self, v, what, nest):
        try:
            with warnings.catch_warnings(record=True) as wlist:
                warnings.simplefilter('always')
                text = PKG.pformat(v) if self.native else pfbase.stream_text(
                    pfbase.sdocs(v, 79, 71, True if self.native else False, traced_printers=True))
            if what != 4 and nest > 0:
                # weakest reading for a nested value: the ValueError may be
                # reported through the enclosing container's failure warning
                for x in wlist:
                    m = str(x.message)
                    if 'ValueError' in m and 'pretty_badreturn' in m:
                        return True
        except ValueError as e:
            if what == 4:
                return self.fail('C14:valid-return-rejected', lambda: repr(e))
            if 'pretty_badreturn' not in str(e):
                return self.fail('C14:ValueError-does-not-name-printer', lambda: repr(e))
            return True
        except Exception as e:
            return self.fail('C14:bad-return-not-ValueError', lambda: repr(e))
        if what != 4:
            return self.fail('C14:bad-return-not-reported', lambda: text)
        return True

    def after(self, v, inner):
        """later calls are unaffected by an earlier failure: the same objects,
        with the printer behaving, print normally"""
        inner.what = 4
        try:
            with warnings.catch_warnings(record=True) as wl:
                warnings.simplefilter('always')
                if self.native:
                    again = PKG.pformat(v)
                else:
                    with NoTracing():
                        again = PKG.pformat(v)
        except Exception as e:
            return self.fail('C14:later-call-raises', lambda: repr(e))
        want = 'fine'
        x = v
        depth = 0
        while isinstance(x, list):
            x = x[0]
            depth += 1
        want = '[' * depth + "fine" + ']' * depth
        if again != want or wl:
            return self.fail('C14:later-call-affected', lambda: '%r instead of %r' % (again, want))
        return True

    def run_native(self, args):
        return self.run(args['what'], args['nest'])


def _pre_b(what, nest):
    return CASE.pre(what, nest)


def h_badreturn(what: int, nest: int) -> bool:
    """
    pre: _pre_b(what, nest)
    post: _
    """
    return CASE.run(what, nest)


def h_badreturn_twin(what: int, nest: int) -> bool:
    """
    pre: _pre_b(what, nest)
    post: False
    """
    CASE.run(what, nest)
    return True


FAMILIES = {
    'fault': base.Family('fault', h_fault, h_fault_twin, FaultCase, _install),
    'badreturn': base.Family('badreturn', h_badreturn, h_badreturn_twin, BadReturnCase, _install),
}


def run_case(task):
    return base.generic_run_case(FAMILIES, task)


def replay_case(task):
    return base.generic_replay_case(FAMILIES, task)


def N(i, *c):
    return ['node', i, list(c)]


def NT(i, *c):
    return ['nodetc', i, list(c)]


I = lambda n: ['int', n]

TREES = [
    ('single', N(1, I(1))),
    ('leafless', N(1)),
    ('two-children', N(1, N(2, I(1)), N(3, I(2)))),
    ('siblings-in-list', ['list', [N(1, I(1)), N(2, N(3, I(2))), I(3)]]),
    ('in-dict', ['dict', [['a', N(1, I(1))], ['b', ['list', [N(2, I(2))]]]]]),
    ('hug', N(1, ['list', [N(2, I(1)), N(3, I(2))]])),
    ('chain', N(1, N(2, N(3, N(4, I(1)))))),
    ('tuple1', ['tuple', [N(1, I(1))]]),
    ('six', ['list', [N(1, N(2), N(3)), ['dict', [['k', N(4, N(5, I(0)))]]], N(6)]]),
    ('tc-accepting', ['list', [['tc', 'note', NT(1, I(1))], NT(2, I(2))]]),
    ('tc-accepting-top', ['tc', 'note', NT(1, NT(2, I(1)))]),
    ('tc-not-accepting', ['list', [['tc', 'note', N(1, I(1))], N(2, I(2))]]),
    ('tc-nested', NT(1, ['tc', 'inner', NT(2, I(1))], NT(3))),
    ('commented', ['list', [['c', 'a comment', N(1, I(1))], N(2)]]),
    # the same object occurring several times (sharing without a cycle)
    ('shared-siblings', ['list', [N(1, I(1)), ['ref', 1], N(2)]]),
    ('shared-nested', N(1, N(2, I(1)), ['list', [I(0), ['ref', 2]]])),
    ('shared-in-dict', ['dict', [['a', N(1, N(2))], ['b', ['ref', 2]], ['c', ['ref', 1]]]]),
    ('shared-tc', ['list', [['tc', 'note', NT(1, I(1))], ['ref', 1]]]),
    # printer registered by qualified name for the base class, first use through a subclass instance
    ('by-name-top', ['lazynode', 1, [I(1)]]),
    ('by-name-nested', ['list', [['lazynode', 1, [['lazynode', 2, [I(1)]]]], I(2), ['lazynode', 3, []]]]),
    ('by-name-mixed', N(1, ['lazynode', 2, [I(1)]], N(3))),
    # printers for dict / list subclasses that keep the built-in __repr__ (keys not in sorted order)
    ('dict-subclass', ['dnode', 1, [['zeta', I(1)], ['alpha', N(2, I(2))], ['mid', ['dict', [['y', I(3)], ['b', I(4)]]]]]]),
    ('list-subclass', ['list', [['lnode', 1, [I(3), ['dict', [['z', I(1)], ['a', N(2)]]], ['dnode', 3, [['q', I(0)], ['c', I(1)]]]]]]]),
]


def cases(tier, seed):
    out = []
    for j, (name, spec) in enumerate(TREES):
        out.append({'name': 'fault:%s|default' % name, 'family': 'fault',
                    'params': {'spec': spec, 'slice': 'default'},
                    'budget': 120.0 if tier == 'quick' else 400.0, 'path_timeout': 40.0,
                    'twin': j == 1})
        if tier == 'thorough' or j in (0, 3, 9):
            out.append({'name': 'fault:%s|page' % name, 'family': 'fault',
                        'params': {'spec': spec, 'slice': 'page'},
                        'budget': 100.0 if tier == 'quick' else 900.0, 'path_timeout': 40.0})
    out.append({'name': 'badreturn', 'family': 'badreturn', 'params': {}, 'budget': 60.0, 'twin': True})
    return out


def evidence(tier, seed, tasks, results):
    return {
        'coverage': {
            'bounds': {
                'fault index': 'symbolic 1..n+1 for a tree with n printer invocations (n+1 = no fault)',
                'exception class': 'symbolic selector over %d classes derived from Exception: %s' % (
                    len(EXCS), ', '.join(e.__name__ for e in EXCS)),
                'width': 'default configuration; 1..200 symbolic for %s trees' % ('all' if tier == 'thorough' else 'three'),
                'trees': [n for n, _ in TREES],
                'bad return': 'symbolic selector over {None, int, list, bytes, str} x nesting 0..2',
            },
            'outside_the_claim': 'single faults only (pairs of faults not explored); faults raised before the failing printer printed its children',
        },
        'assumptions': ['the printed repr of an instrumented node is an identifier so that the expected output can be compared as a syntax tree',
                        'CrossHair; z3; lemma L1 for symbolic-width cases'],
    }
