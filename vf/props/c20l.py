"""C20, layout level - the layout engine (prettyprinter/layout.py) under
concurrent use.

Same technique as vf/props/c20.py, applied to a second module: every
module-level function of /repo's *current* prettyprinter/layout.py is turned
into a coroutine that yields before each statement (generator functions have
their data ``yield x`` rewritten to ``out.append(x)`` and return the list, so
that the only yields left are scheduling points; calls through a variable -
the fitting predicate is passed as an argument - are resolved at run time to
the coroutine twin of the real function).  Two "threads" lay out a document
each, on the real module state and the real shared document constants; the
context-switch points are solver variables.  Counterexamples are replayed on
real threads running the untransformed code (sys.settrace scheduler).
"""
import ast
import copy
import os
import warnings

from crosshair.tracers import NoTracing

from vf import base
from vf.props import c20

REPO = c20.REPO
CASE = None


def _install(case):
    global CASE
    CASE = case


class LCallRewriter(ast.NodeTransformer):
    def __init__(self, names):
        self.names = names

    def visit_Lambda(self, node):
        return node

    visit_ListComp = visit_SetComp = visit_DictComp = visit_GeneratorExp = visit_Lambda
    visit_FunctionDef = visit_Lambda

    def visit_Yield(self, node):
        raise RuntimeError('yield inside an expression is not supported by the transformer')

    visit_YieldFrom = visit_Yield

    def visit_Call(self, node):
        self.generic_visit(node)
        f = node.func
        if isinstance(f, ast.Name) and f.id in self.names:
            node.func = ast.Name(id='__co__' + f.id, ctx=ast.Load())
            return ast.YieldFrom(value=node)
        if isinstance(f, ast.Name):
            # possibly a function of this module passed around as a value
            node.args = [f] + node.args
            node.func = ast.Name(id='__co_call', ctx=ast.Load())
            return ast.YieldFrom(value=node)
        return node


class LYielder(c20.Yielder):
    def __init__(self, names, lock_names):
        super().__init__(names, lock_names)
        self.rewriter = LCallRewriter(self.names)
        self.in_generator = False

    def stmt(self, st):
        if isinstance(st, ast.Expr) and isinstance(st.value, ast.Yield):
            v = st.value.value or ast.Constant(value=None)
            return [ast.Expr(value=ast.Call(
                func=ast.Attribute(value=ast.Name(id='__co_out', ctx=ast.Load()), attr='append', ctx=ast.Load()),
                args=[self.expr(v)], keywords=[]))]
        if isinstance(st, ast.Expr) and isinstance(st.value, ast.YieldFrom):
            return [ast.Expr(value=ast.Call(
                func=ast.Attribute(value=ast.Name(id='__co_out', ctx=ast.Load()), attr='extend', ctx=ast.Load()),
                args=[self.expr(st.value.value)], keywords=[]))]
        if isinstance(st, ast.Return) and self.in_generator:
            if st.value is not None:
                raise RuntimeError('return with a value inside a generator is not supported')
            return [ast.Return(value=ast.Name(id='__co_out', ctx=ast.Load()))]
        return super().stmt(st)

    def transform_function(self, fn):
        fn = copy.deepcopy(fn)
        fn.decorator_list = []
        is_gen = any(isinstance(n, (ast.Yield, ast.YieldFrom)) for n in ast.walk(fn))
        fn.name = '__co__' + fn.name
        self.in_generator = is_gen
        body = self.block(fn.body)
        self.in_generator = False
        if is_gen:
            body = ([ast.Assign(targets=[ast.Name(id='__co_out', ctx=ast.Store())],
                                value=ast.List(elts=[], ctx=ast.Load()))]
                    + body + [ast.Return(value=ast.Name(id='__co_out', ctx=ast.Load()))])
        fn.body = body
        return fn


def build_coroutines():
    path = os.path.join(REPO, 'prettyprinter', 'layout.py')
    tree = ast.parse(open(path).read())
    defs = {n.name: n for n in tree.body if isinstance(n, ast.FunctionDef)}
    for need in ('best_layout', 'layout_smart', 'layout_fast'):
        if need not in defs:
            raise RuntimeError('could not find %r in layout.py' % need)
    locks = []
    for node in tree.body:
        if isinstance(node, ast.Assign) and isinstance(node.value, ast.Call) \
                and c20._callname(node.value.func) in ('Lock', 'RLock'):
            locks.extend(t.id for t in node.targets if isinstance(t, ast.Name))
    y = LYielder(set(defs), locks)
    fns = [y.transform_function(defs[name]) for name in sorted(defs)]
    mod = ast.Module(body=fns, type_ignores=[])
    ast.fix_missing_locations(mod)
    code = compile(mod, path + ':<coroutines>', 'exec')
    return code, y.points, locks, sorted(defs)


# ---------------------------------------------------------------------------
# scenarios: (doc of thread 0, doc of thread 1, width, ribbon_frac); the
# documents share the module-level constants (LINE, SOFTLINE, HARDLINE, NIL)

SCENARIOS = {
    # one group fits, the other must break
    'fit-vs-break': ("group(concat(['aa', LINE, 'bb']))",
                     "group(concat(['cccccc', LINE, 'dddddd']))", 8, 1.0),
    'break-vs-fit': ("group(concat(['cccccc', LINE, 'dddddd']))",
                     "group(concat(['aa', LINE, 'bb']))", 8, 1.0),
    # bracketed sequences as the container printers build them
    'seq': ("group(concat(['[', nest(4, concat([SOFTLINE, 'x', ',', LINE, 'y'])), SOFTLINE, ']']))",
            "group(concat(['(', nest(4, concat([SOFTLINE, 'longer', ',', LINE, 'evenlonger'])), SOFTLINE, ')']))",
            12, 1.0),
    # nested groups: the outer breaks, the inner ones decide again
    'nested': ("group(concat(['f(', nest(2, concat([SOFTLINE, group(concat(['a', LINE, 'b'])), ',', LINE, 'c'])), ')']))",
               "group(concat(['g(', nest(2, concat([SOFTLINE, group(concat(['aaaa', LINE, 'bbbb'])), ',', LINE, 'cc'])), ')']))",
               9, 1.0),
    # fill, always_break and a contextual (align)
    'fill': ("fill(['a', LINE, 'bb', LINE, 'ccc', LINE, 'd'])",
             "fill(['aaaa', LINE, 'bbbb', LINE, 'cc'])", 7, 1.0),
    'align': ("concat(['k = ', align(group(concat(['x', LINE, 'y'])))])",
              "concat(['key = ', align(group(concat(['xxxx', LINE, 'yyyy'])))])", 10, 1.0),
    'forced': ("group(concat(['a', LINE, always_break(concat(['b', LINE, 'c']))]))",
               "group(concat(['a', LINE, 'b']))", 20, 0.5),
}


def make_doc(src):
    import prettyprinter.doc as D
    import prettyprinter.doctypes as T
    ns = {k: getattr(D, k) for k in ('group', 'concat', 'nest', 'align', 'hang', 'fill',
                                     'always_break', 'flat_choice', 'annotate')}
    ns.update(LINE=T.LINE, SOFTLINE=T.SOFTLINE, HARDLINE=T.HARDLINE, NIL=T.NIL)
    return eval(src, ns)


def _co_call(twins):
    def call(f, *a, **k):
        co = twins.get(id(f))
        if co is not None and co[0] is f:
            return (yield from co[1](*a, **k))
        return f(*a, **k)
        yield  # pragma: no cover
    return call


class LayoutScheduleCase(c20.ScheduleCase):
    def __init__(self, params):
        base.CaseBase.__init__(self, params)
        import prettyprinter.layout as L
        from prettyprinter.render import default_render_to_str
        self.L = L
        self.render = default_render_to_str
        self.scen = params['scenario']
        d0, d1, self.width, self.frac = SCENARIOS[self.scen]
        self.docsrc = [d0, d0] if params.get('same_doc') else [d0, d1]
        self.entry = 'layout_smart' if params.get('smart', True) else 'layout_fast'
        self.nthreads = 2
        self.values = self.docsrc
        self.setup = self.scen
        self.code, self.points, self.lock_names, self.selected = build_coroutines()
        self.maxstep = params.get('maxstep', 511)
        self.expected = {}
        for i, d in enumerate(self.make_values()):
            self.expected[i] = self.render(getattr(L, self.entry)(d, width=self.width, ribbon_frac=self.frac))
        # statements a thread executes when alone (for sizing the cut ranges)
        self.alone = []
        for i in range(2):
            gen = self.thread_gen(i, self.make_values())
            n = 0
            try:
                while True:
                    next(gen)
                    n += 1
            except StopIteration:
                pass
            self.alone.append(n)

    def make_values(self):
        docs = [make_doc(s) for s in self.docsrc]
        if self.params.get('same_doc'):
            docs = [docs[0], docs[0]]
        return docs

    def bits(self):
        return (256, 128, 64, 32, 16, 8, 4, 2, 1)

    def run(self, cuts):
        conc = []
        for k in range(self.ncuts()):
            v = 0
            for bit in self.bits():
                if cuts[k] >= v + bit:
                    v += bit
            conc.append(v)
        if self.native:
            return self.execute(conc)
        with NoTracing():
            return self.execute(conc)

    def execute(self, cuts):
        with warnings.catch_warnings():
            warnings.simplefilter('ignore')
            return self.execute_inner(cuts)

    def thread_gen(self, i, docs):
        L = self.L
        locks = {name: c20.CoLock(name) for name in self.lock_names}
        me = [None]
        overlay = dict(locks)
        overlay['__co_acquire'] = c20._co_acquire
        overlay['__co_release'] = c20._co_release
        overlay['__co_me'] = me
        ns = c20.Namespace(L.__dict__, overlay)
        exec(self.code, ns)
        twins = {}
        for name in self.selected:
            real = L.__dict__.get(name)
            if real is not None:
                twins[id(real)] = (real, ns['__co__' + name])
        ns['__co_call'] = _co_call(twins)
        me[0] = ns
        return ns['__co__' + self.entry](docs[i], width=self.width, ribbon_frac=self.frac)

    def execute_inner(self, cuts):
        n = 2
        docs = self.make_values()
        threads = [{'gen': self.thread_gen(i, docs), 'done': False, 'out': None, 'exc': None,
                    'trace': []} for i in range(n)]

        def step(i):
            t = threads[i]
            if t['done']:
                return False
            try:
                r = next(t['gen'])
                if isinstance(r, c20.Blocked):
                    return False
                t['trace'].append(r)
            except StopIteration as s:
                t['done'] = True
                t['out'] = s.value
            except Exception as e:
                t['done'] = True
                t['exc'] = e
            return True

        order = [k % n for k in range(len(cuts))]
        schedule = []
        for who, length in zip(order, cuts):
            for _ in range(length):
                if not step(who):
                    break
            schedule.append((who, length))
        guard = 0
        while not all(t['done'] for t in threads):
            progressed = False
            for i in range(n - 1, -1, -1):
                while not threads[i]['done']:
                    if not step(i):
                        break
                    progressed = True
            guard += 1
            if not progressed or guard > 1000:
                self.last_traces = [list(t['trace']) for t in threads]
                return self.fail('C20:deadlock', lambda: 'schedule=%r' % (schedule,))
        self.last_traces = [list(t['trace']) for t in threads]
        texts = {}
        describe = lambda: ('layout scenario=%s entry=%s docs=%r width=%r ribbon_frac=%r\n'
                            'schedule (thread, statements)=%r\nresults=%r\nsequential=%r' % (
                                self.scen, self.entry, self.docsrc, self.width, self.frac, schedule,
                                [(repr(t['exc']) if t['exc'] else texts.get(i)) for i, t in enumerate(threads)],
                                self.expected))
        for i, t in enumerate(threads):
            if t['exc'] is not None:
                return self.fail('C20:thread-raises-' + type(t['exc']).__name__, describe)
        for i, t in enumerate(threads):
            try:
                texts[i] = self.render(t['out'])
            except Exception as e:
                return self.fail('C20:thread-raises-' + type(e).__name__, describe)
        for i in range(n):
            if texts[i] != self.expected[i]:
                return self.fail('C20:text-differs-from-sequential-run', describe)
        # a later (sequential) layout still agrees: the shared state is intact
        for i, d in enumerate(self.make_values()):
            again = self.render(getattr(self.L, self.entry)(d, width=self.width, ribbon_frac=self.frac))
            if again != self.expected[i]:
                return self.fail('C20:later-print-differs-from-sequential-run', describe)
        return True

    def real_threads(self, cuts):
        import sys
        import threading
        fname = os.path.join(REPO, 'prettyprinter', 'layout.py')
        targets = set(self.selected)
        n = 2
        docs = self.make_values()
        go = [threading.Semaphore(0) for _ in range(n)]
        arrived = [threading.Semaphore(0) for _ in range(n)]
        results = [None] * n
        finished = [False] * n
        expected_lines = [list(tr) for tr in getattr(self, 'last_traces', [[]] * n)]
        pointer = [0] * n
        L, entry, render = self.L, self.entry, self.render
        width, frac = self.width, self.frac

        def make_tracer(i):
            def local(frame, event, arg):
                if event == 'line' and pointer[i] < len(expected_lines[i]) \
                        and frame.f_lineno == expected_lines[i][pointer[i]]:
                    pointer[i] += 1
                    arrived[i].release()
                    go[i].acquire()
                return local

            def tracer(frame, event, arg):
                co = frame.f_code
                if event == 'call' and co.co_filename == fname and co.co_name in targets:
                    return local
                return None
            return tracer

        def body(i):
            sys.settrace(make_tracer(i))
            try:
                results[i] = ('ok', render(getattr(L, entry)(docs[i], width=width, ribbon_frac=frac)))
            except BaseException as e:       # noqa
                results[i] = ('exc', repr(e))
            finally:
                sys.settrace(None)
                finished[i] = True
                arrived[i].release()

        ths = [threading.Thread(target=body, args=(i,), daemon=True) for i in range(n)]
        started = [False] * n
        paused = [False] * n

        def step(i):
            if finished[i]:
                return False
            if not started[i]:
                started[i] = True
                ths[i].start()
                if not arrived[i].acquire(timeout=5):
                    return False
                paused[i] = not finished[i]
                return paused[i]
            if not paused[i]:
                return False
            go[i].release()
            paused[i] = False
            if not arrived[i].acquire(timeout=2):
                return False
            paused[i] = not finished[i]
            return True

        order = [k % n for k in range(len(cuts))]
        for who, length in zip(order, cuts):
            for _ in range(length):
                if not step(who):
                    break
        for rounds in range(5000):
            if all(finished):
                break
            for i in range(n - 1, -1, -1):
                while step(i):
                    pass
        for t in ths:
            if t.is_alive():
                t.join(timeout=2)
        problems = []
        for i in range(n):
            r = results[i]
            if r is None:
                problems.append('thread %d did not finish' % i)
            elif r[0] == 'exc':
                problems.append('thread %d raised %s' % (i, r[1]))
            elif r[1] != self.expected[i]:
                problems.append('thread %d returned %r, sequentially %r' % (i, r[1], self.expected[i]))
        return '; '.join(problems) if problems else None


def _pre(c1, c2, c3, c4):
    return CASE.pre([c1, c2, c3, c4])


def h_lsched(c1: int, c2: int, c3: int, c4: int) -> bool:
    """
    pre: _pre(c1, c2, c3, c4)
    post: _
    """
    return CASE.run([c1, c2, c3, c4])


def h_lsched_twin(c1: int, c2: int, c3: int, c4: int) -> bool:
    """
    pre: _pre(c1, c2, c3, c4)
    post: False
    """
    CASE.run([c1, c2, c3, c4])
    return True


FAMILY = base.Family('layout-schedule', h_lsched, h_lsched_twin, LayoutScheduleCase, _install)


def cases(tier, seed):
    out = []
    scen = [('fit-vs-break', True, False), ('break-vs-fit', True, False), ('seq', True, False),
            ('nested', True, False), ('fit-vs-break', False, False), ('fill', True, False),
            ('align', True, False), ('forced', True, False), ('nested', True, True)]
    if tier == 'quick':
        scen = scen[:3] + [scen[4], scen[6]]
    first = True
    for name, smart, same in scen:
        probe = LayoutScheduleCase({'scenario': name, 'smart': smart, 'same_doc': same})
        m0, m1 = probe.alone
        if m0 > 511 or m1 > 511:
            raise RuntimeError('scenario %s too long for the 9-bit cut range: %r' % (name, probe.alone))
        step = max(1, m0 // 8) if tier == 'quick' else max(1, m0 // 24)
        c3v = [0, 1, 3, 8, 21, 55, 144, 377] if tier != 'quick' else [0, 2, 13, 55]
        c3v = [v for v in c3v if v <= m0]
        # c1 = 0 and c1 >= m0 are sequential runs: one of each is enough
        for c1 in sorted(set(range(1, m0, step)) | {0, m0}):
            out.append({'name': 'layout:%s:%s%s:c1=%d' % (name, 'smart' if smart else 'fast',
                                                           ':same-doc' if same else '', c1),
                        'family': 'layout-schedule',
                        'params': {'scenario': name, 'smart': smart, 'same_doc': same, 'ncuts': 3,
                                   'maxstep': min(511, max(m0, m1) + 1), 'first': c1, 'c3_values': c3v},
                        'budget': 150.0 if tier == 'quick' else 600.0, 'path_timeout': 60.0,
                        'twin': first})
            first = False
    return out


def bounds(tier):
    code, points, locks, selected = build_coroutines()
    return {
        'layout.py functions turned into coroutines (from the current source)': selected,
        'layout.py yield points inserted': points,
        'layout schedules': 'two threads lay out one document each (scenarios: %s): A runs c1 statements '
                            '(fixed per task; quick: 8, thorough: 24 values spread over the run of A), B c2 (symbolic, 0..all of B), A c3 '
                            '(symbolic over a set of values), then both run to completion' % ', '.join(sorted(SCENARIOS)),
    }
