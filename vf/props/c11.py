"""C11 - depth cuts off exactly below the requested nesting level.

Symbolic: depth d >= 0, *unbounded above*; page width on the small trees.
Enumerated: container trees with uniquely identifiable int leaves.
The printers run traced (the depth budget flows through them).
"""
import ast

from crosshair.tracers import NoTracing

from vf import base, pfbase, trees
from vf.trees import L

CASE = None


def _install(case):
    global CASE
    CASE = case


def ints(kind, *ns):
    return [kind, [L(str(n)) for n in ns]]


TREES = [
    ('list', ints('list', 1, 2)),
    ('tuple1', ints('tuple', 1)),
    ('set', ints('set', 1)),
    ('fset', ints('frozenset', 1, 2)),
    ('dict-strkey', ['dict', [[L("'a'"), L('1')], [L("b'b'"), ints('list', 2)]]]),
    ('dict-intkey', ['dict', [[L('1'), L('2')], [L('3'), ints('tuple', 4, 5)]]]),
    ('dict-tuplekey', ['dict', [[ints('tuple', 1, 2), ints('list', 3)]]]),
    ('nest3', ['list', [L('1'), ['list', [L('2'), ['list', [L('3'), ['list', [L('4')]]]]]]]]),
    ('mixed', ['list', [['tuple', [L('1'), ['dict', [[L("'k'"), ints('set', 2)]]]]], ints('frozenset', 3), L('4')]]),
    ('height6', ['list', [['tuple', [['dict', [[L('1'), ['list', [['frozenset', [['tuple', [L('2')]]]]]]]]], L('3')]], L('4')]]),
    ('box', ['box', [ints('list', 1, 2)]]),
    ('box-kw', ['box', [L('1')], [['tag', ints('tuple', 2, 3)]]]),
    ('int', L('7')),
    ('dict3', ['dict', [[L('1'), ints('list', 10)], [L('2'), ints('list', 20)], [L('3'), L('30')]]]),
    # string leaves long enough to be split over several lines at the default width
    ('long-str-elem', ['list', [L(repr('lorem ipsum dolor sit amet ' * 4)), L('2')]]),
    ('long-str-value', ['dict', [[L('1'), L(repr('consectetur adipiscing elit sed ' * 3))], [L('2'), ['list', [L(repr(b'bytes words here ' * 6))]]]]]),
    ('short-strs', ['list', [L("'a'"), ['tuple', [L("b'b'"), L('3')]]]]),
    # user subclasses of list / tuple / dict (printed as a constructor call around the literal)
    ('user-list', ['list', [L('0'), ['ulist', [L('1'), ints('list', 2)]]]]),
    ('user-dict', ['udict', [[L('1'), ['utuple', [L('2'), L('3')]]], [L('4'), ints('list', 5)]]]),
    # (a tuple placeholder as the sole element of a list would read like the list's own placeholder: avoided)
    ('singletons', ['list', [['list', [['list', [ints('set', 1)]]]]]]),
]


def height(v):
    from vf.props.c02 import Box
    if isinstance(v, Box):
        return 1 + max(height(v.x), height(v.tag) if v.tag is not None else 0)
    if isinstance(v, dict):
        hs = [0]
        for k, x in v.items():
            hs.append(height(k) if not isinstance(k, (str, bytes)) else 0)
            hs.append(height(x))
        return 1 + max(hs)
    if isinstance(v, (list, tuple, set, frozenset)):
        return 1 + max([0] + [height(x) for x in v])
    return 0


def _is_ellipsis(n):
    return isinstance(n, ast.Constant) and n.value is Ellipsis


def _call_name(n):
    if not isinstance(n, ast.Call):
        return None
    f = n.func
    parts = []
    while isinstance(f, ast.Attribute):
        parts.append(f.attr)
        f = f.value
    if isinstance(f, ast.Name):
        parts.append(f.id)
        return '.'.join(reversed(parts))
    return None


def type_name(v):
    t = type(v)
    if t.__module__ == 'builtins':
        return t.__qualname__
    return t.__module__ + '.' + t.__qualname__


def _is_user_container(v):
    return isinstance(v, (list, tuple, dict)) and type(v) not in (list, tuple, dict)


def is_placeholder(node, v):
    if _is_user_container(v):
        # MyList([...]) / MyTuple((...)) / MyDict({...})
        if _call_name(node) != type_name(v) or len(node.args) != 1 or node.keywords:
            return False
        base = list if isinstance(v, list) else tuple if isinstance(v, tuple) else dict
        return is_placeholder(node.args[0], base())
    if isinstance(v, list):
        return isinstance(node, ast.List) and len(node.elts) == 1 and _is_ellipsis(node.elts[0])
    if isinstance(v, tuple):
        return _is_ellipsis(node)
    if isinstance(v, dict):
        return isinstance(node, ast.Set) and len(node.elts) == 1 and _is_ellipsis(node.elts[0])
    return (_call_name(node) == type_name(v) and len(node.args) == 1 and
            not node.keywords and _is_ellipsis(node.args[0]))


class DepthCase(base.CaseBase):
    def __init__(self, params):
        super().__init__(params)
        self.spec = params['spec']
        self.value = trees.build(self.spec)
        self.slice = params.get('slice', 'default')
        self.height = height(self.value)
        self.none = params.get('none', False)

    def pre(self, d, w, rw):
        return 0 <= d and pfbase.slice_pre(self.slice, w, rw)

    def run(self, d, w, rw):
        depth = None if self.none else d
        import warnings
        with warnings.catch_warnings(record=True) as wlist:
            warnings.simplefilter('always')
            try:
                if self.native:
                    text = pfbase.native_pformat(self.value, w, rw, depth=depth)
                    full = pfbase.native_pformat(self.value, w, rw, depth=None)
                else:
                    text = pfbase.ptext(self.value, w, rw, depth=depth, traced_printers=True)
                    full = pfbase.ptext(self.value, w, rw, depth=None, traced_printers=True)
            except Exception as e:
                exc = type(e).__name__
                return self.fail('C11:pformat-raises-' + exc, lambda: '%s: %s' % (exc, e))
        with NoTracing():
            failed = [str(x.message)[:300] for x in wlist if 'Falling back' in str(x.message)]
        if failed:
            return self.fail('C11:printer-failed-repr-fallback',
                             lambda: 'value=%s depth=%r w=%r rw=%r\noutput:\n%s\nwarnings=%r' % (
                                 trees.show(self.spec), depth, w, rw, text, failed))
        describe = lambda: 'value=%s depth=%r w=%r rw=%r\noutput:\n%s' % (
            trees.show(self.spec), depth, w, rw, text)
        with NoTracing():
            try:
                tree = ast.parse('(' + text + '\n)', mode='eval').body
            except SyntaxError:
                return self.fail('C11:output-not-an-expression', describe)
        if self.none:
            if text != full:
                return self.fail('C11:depth-None-truncates', describe)
            return True
        # every visited node: placeholder  <=>  not (k < d)
        ok = self.walk(tree, self.value, 0, d)
        if ok is not True:
            return self.fail(ok, describe)
        if text != full:
            # then d must not exceed the nesting height
            if d > self.height:
                return self.fail('C11:truncates-above-nesting-height', describe)
        return True

    def walk(self, node, v, k, d):
        """True or a finding key.  ``k < d`` is a symbolic comparison that the
        solver must decide for the whole region of d that shares this path."""
        from vf.props.c02 import Box
        with NoTracing():
            ph = is_placeholder(node, v)
        if ph:
            if k < d:
                return 'C11:placeholder-above-the-cut'
            return True
        if not (k < d):
            return 'C11:printed-in-full-below-the-cut'
        with NoTracing():
            kids = self.children(node, v)
        if kids is None:
            return 'C11:not-the-unlimited-output-with-placeholders'
        for cn, cv, ck in kids:
            r = self.walk(cn, cv, k + ck, d)
            if r is not True:
                return r
        return True

    def children(self, node, v):
        """[(ast child, value child, levels consumed)] or None on mismatch."""
        from vf.props.c02 import Box
        if isinstance(v, bool) or v is None:
            return [] if isinstance(node, ast.Constant) and node.value is v else None
        if isinstance(v, int):
            return [] if isinstance(node, ast.Constant) and node.value == v and type(node.value) is int else None
        if isinstance(v, (str, bytes)):
            return [] if isinstance(node, ast.Constant) and node.value == v else None
        if _is_user_container(v):
            # the constructor call around the literal of the base type (same nesting level)
            if _call_name(node) != type_name(v) or len(node.args) != 1 or node.keywords:
                return None
            base = list if isinstance(v, list) else tuple if isinstance(v, tuple) else dict
            return self.children(node.args[0], base(v))
        if isinstance(v, list):
            if not isinstance(node, ast.List) or len(node.elts) != len(v):
                return None
            return [(n, x, 1) for n, x in zip(node.elts, v)]
        if isinstance(v, tuple):
            if not isinstance(node, ast.Tuple) or len(node.elts) != len(v):
                return None
            return [(n, x, 1) for n, x in zip(node.elts, v)]
        if isinstance(v, frozenset):
            if _call_name(node) != 'frozenset' or len(node.args) != 1:
                return None
            inner = node.args[0]
            if not isinstance(inner, ast.List) or len(inner.elts) != len(v):
                return None
            return [(n, x, 1) for n, x in zip(inner.elts, list(v))]
        if isinstance(v, set):
            if not isinstance(node, ast.Set) or len(node.elts) != len(v):
                return None
            return [(n, x, 1) for n, x in zip(node.elts, list(v))]
        if isinstance(v, dict):
            if not isinstance(node, ast.Dict) or len(node.keys) != len(v):
                return None
            out = []
            for kn, vn, (kk, vv) in zip(node.keys, node.values, v.items()):
                if isinstance(kk, (str, bytes)):
                    # printed with the dict's own budget: only the prefix
                    # relation is required (DESIGN.md 6)
                    if not (isinstance(kn, ast.Constant) and kn.value == kk):
                        return None
                else:
                    out.append((kn, kk, 1))
                out.append((vn, vv, 1))
            return out
        if isinstance(v, Box):
            if _call_name(node) != type_name(v):
                return None
            out = []
            # a sole list/dict/tuple argument is hugged and does not consume a level
            args = [v.x]
            if len(node.args) != 1:
                return None
            sole = v.tag is None and type(v.x) in (list, dict, tuple)
            out.append((node.args[0], v.x, 0 if sole else 1))
            if v.tag is not None:
                if len(node.keywords) != 1 or node.keywords[0].arg != 'tag':
                    return None
                out.append((node.keywords[0].value, v.tag, 1))
            elif node.keywords:
                return None
            return out
        return None

    def run_native(self, args):
        return self.run(args['d'], args['w'], args['rw'])


def _pre(d, w, rw):
    return CASE.pre(d, w, rw)


def h_depth(d: int, w: int, rw: int) -> bool:
    """
    pre: _pre(d, w, rw)
    post: _
    """
    return CASE.run(d, w, rw)


def h_depth_twin(d: int, w: int, rw: int) -> bool:
    """
    pre: _pre(d, w, rw)
    post: False
    """
    CASE.run(d, w, rw)
    return True


FAMILIES = {'depth': base.Family('depth', h_depth, h_depth_twin, DepthCase, _install)}


def run_case(task):
    return base.generic_run_case(FAMILIES, task)


def replay_case(task):
    return base.generic_replay_case(FAMILIES, task)


def cases(tier, seed):
    out = []
    for i, (name, spec) in enumerate(TREES):
        out.append({'name': 'd-symbolic:%s|default' % name, 'family': 'depth',
                    'params': {'spec': spec, 'slice': 'default'},
                    'budget': 100.0 if tier == 'quick' else 300.0, 'twin': i == 0})
        out.append({'name': 'd-None:%s|default' % name, 'family': 'depth',
                    'params': {'spec': spec, 'slice': 'default', 'none': True}, 'budget': 60.0})
        small = len(trees.show(spec)) <= 20
        if small or tier == 'thorough':
            out.append({'name': 'd-symbolic:%s|page' % name, 'family': 'depth',
                        'params': {'spec': spec, 'slice': 'page'},
                        'budget': 150.0 if tier == 'quick' else 600.0, 'path_timeout': 40.0})
        if tier == 'thorough':
            out.append({'name': 'd-symbolic:%s|narrow' % name, 'family': 'depth',
                        'params': {'spec': spec, 'slice': 'narrow'}, 'budget': 600.0, 'path_timeout': 40.0})
    return out


def evidence(tier, seed, tasks, results):
    return {
        'coverage': {
            'bounds': {
                'depth': 'symbolic d >= 0 with NO upper bound (one path covers every d above the height); None as a concrete case',
                'width': 'default 79/71 for every tree; 1..200 symbolic (page slice) for small trees' + (' and all trees; narrow 2-D slice' if tier == 'thorough' else ''),
                'trees': [n for n, _ in TREES],
            },
            'outside_the_claim': 'empty containers and non-int leaves (None/bool/Ellipsis have no placeholder form); str/bytes dict keys: prefix relation only',
        },
        'assumptions': ['CrossHair; z3; ast as oracle; lemma L1 for the symbolic-width cases'],
    }
