"""C04 - the layout engine only ever picks one of the layouts a document denotes.

Symbolic (solver variables): the length of every text leaf (1..30), every
nest/hang offset (0..8), page width (1..200), ribbon width (1..w), strategy.
Concrete (enumerated): the document shape.
"""
from crosshair.tracers import NoTracing

from vf import base, refsem, gen_docs, stubs
from vf.refsem import F, B

from prettyprinter import layout as L
from prettyprinter.render import default_render_to_str

MAXLEN = 30
MAXW = 200
MAXOFF = 8

CASE = None


class Tag:
    """Annotation values (arbitrary objects, compared by identity)."""
    def __init__(self, n):
        self.n = n

    def __repr__(self):
        return 'Tag(%d)' % self.n


def prelayout(doc, params):
    """'prelayout' cases: a document object denotes its layouts whatever it
    was used for before - the same object is first laid out under other
    configurations (everything flat, then as broken as possible), and only the
    layout after that is the one that is checked."""
    if not params.get('prelayout'):
        return
    try:
        list(L.layout_smart(doc, width=10 ** 6, ribbon_frac=1.0))
        list(L.layout_fast(doc, width=1, ribbon_frac=1.0))
    except Exception:
        pass          # whatever the engine rejects is reported by the checked layout


def wants_prelayout(shape):
    """Shapes with parts that are evaluated or taken apart during a layout."""
    return refsem.contains_kind(shape, ('fill', 'align', 'hang', 'fc', 'sh'))


class LayoutCase(base.CaseBase):
    def __init__(self, params):
        super().__init__(params)
        self.shape = _thaw(params['shape'])
        n, nl, no, ntag, kinds = refsem.shape_stats(self.shape)
        self.nleaves = nl
        self.noffs = no
        self.kinds = kinds
        self.anns = [Tag(0), Tag(1), Tag(2)]
        self.has_ann = 'ann' in kinds
        self.plain_shape = refsem.strip_annotations(self.shape) if self.has_ann else None

    # ---- precondition (evaluated symbolically by CrossHair)
    def pre(self, leaves, offs, w, rw):
        for k, x in enumerate(leaves):
            if k < self.nleaves:
                if not (1 <= len(x) <= MAXLEN):
                    return False
            else:
                if len(x) != 1:
                    return False
        for k, o in enumerate(offs):
            if k < self.noffs:
                if not (0 <= o <= MAXOFF):
                    return False
            else:
                if o != 0:
                    return False
        return 1 <= rw and rw <= w and w <= MAXW

    def layout(self, shape, leaves, offs, w, rw, smart):
        if self.nleaves > len(leaves) or self.noffs > len(offs):
            raise base_shape_error(shape)
        doc = refsem.build(shape, leaves, offs, self.anns)
        prelayout(doc, self.params)
        fn = L.layout_smart if smart else L.layout_fast
        frac = stubs.ribbon_frac_arg(rw, w, self.native)
        return list(fn(doc, width=w, ribbon_frac=frac))

    def run(self, leaves, offs, w, rw, smart):
        try:
            stream = self.layout(self.shape, leaves, offs, w, rw, smart)
        except AssertionError as e:
            return self.fail('C04:combinator-rejects-valid-document',
                             lambda: 'AssertionError building/laying out %s' % gen_docs.show(self.shape))
        except (ValueError, TypeError, AttributeError, IndexError, KeyError) as e:
            exc = type(e).__name__
            return self.fail('C04:engine-raises-' + exc,
                             lambda: '%s: %s on %s' % (exc, e, gen_docs.show(self.shape)))
        toks = refsem.tokenize(stream, leaves, self.native)
        for kind, v in toks:
            if kind == '?':
                return self.fail('C04:foreign-fragment', lambda: repr(v))
        cols = refsem.columns(toks, leaves)
        mk = lambda **kw: refsem.Matcher(toks, cols, leaves, offs, self.anns,
                                         self.native, **kw)
        if not mk(prefer=F).run(self.shape):
            # classify (most specific first); every relaxation is a
            # *different* finding key so that nothing else is masked
            describe = lambda: 'shape=%s\nstream=%r\ntext=\n%s' % (
                gen_docs.show(self.shape), stream, refsem.plain_text(toks, leaves))
            if mk(prefer=F, strict_forced='raw-ok').run(self.shape):
                return self.fail('C04:flat-group-contains-raw-hardline', describe)
            if mk(prefer=F, strict_forced=False).run(self.shape):
                return self.fail('C04:flat-group-contains-forced-break', describe)
            if mk(prefer=F, ab_flat_in_fill=True).run(self.shape):
                return self.fail('C04:always-break-fill-item-laid-flat', describe)
            if mk(prefer=F, check_indent=False).run(self.shape):
                return self.fail('C04:line-indent-not-sum-of-offsets', describe)
            if mk(prefer=F, strict_forced=False, ab_flat_in_fill=True,
                  check_indent=False).run(self.shape):
                return self.fail('C04:several-rules-at-once', describe)
            return self.fail('C04:not-in-layout-set', describe)
        # annotations never change the text: differential twin without them
        if self.has_ann:
            try:
                plain = self.layout(self.plain_shape, leaves, offs, w, rw, smart)
            except Exception as e:
                return self.fail('C04:engine-raises-' + type(e).__name__)
            ptoks = refsem.tokenize(plain, leaves, self.native)
            mine = [t for t in toks if t[0] not in ('PUSH', 'POP')]
            if len(mine) != len(ptoks):
                return self.fail('C04:annotation-changes-text',
                                 lambda: '%r vs %r' % (stream, plain))
            for (k1, v1), (k2, v2) in zip(mine, ptoks):
                if k1 != k2:
                    return self.fail('C04:annotation-changes-text',
                                     lambda: '%r vs %r' % (stream, plain))
                if k1 == 'L':
                    if v1.indent != v2.indent:
                        return self.fail('C04:annotation-changes-text',
                                         lambda: '%r vs %r' % (stream, plain))
                elif v1 != v2:
                    return self.fail('C04:annotation-changes-text',
                                     lambda: '%r vs %r' % (stream, plain))
        return True

    def run_native(self, args):
        leaves = [args['a'], args['b'], args['c'], args['d'], args['e']]
        offs = [args['i'], args['j']]
        return self.run(leaves, offs, args['w'], args['rw'], args['smart'])

    def default_args(self):
        return dict(a='aaaa', b='bbb', c='cc', d='dddd', e='e', i=2, j=3, w=9,
                    rw=8, smart=True)


class ShapeTooLarge(BaseException):
    """machinery error: the shape needs more symbolic parameters than the harness has"""


def base_shape_error(shape):
    return ShapeTooLarge(gen_docs.show(shape))


def _thaw(x):
    """JSON round trip turns tuples into lists; normalise back."""
    if isinstance(x, (list, tuple)):
        if x and isinstance(x[0], str) and x[0] in (
                't', 's', 'nil', 'cat', 'nest', 'grp', 'line', 'softline',
                'hardline', 'fc', 'ab', 'fill', 'align', 'hang', 'ann', 'v', 'c', 'sh'):
            if x[0] in ('cat', 'fill'):
                return (x[0], [_thaw(c) for c in x[1]])
            return tuple(_thaw(c) if isinstance(c, (list, tuple)) else c for c in x)
        return [_thaw(c) for c in x]
    return x


def _pre(a, b, c, d, e, i, j, w, rw):
    return CASE.pre([a, b, c, d, e], [i, j], w, rw)


def h_layout(a: str, b: str, c: str, d: str, e: str, i: int, j: int,
             w: int, rw: int, smart: bool) -> bool:
    """
    pre: _pre(a, b, c, d, e, i, j, w, rw)
    post: _
    """
    return CASE.run([a, b, c, d, e], [i, j], w, rw, smart)


def h_layout_twin(a: str, b: str, c: str, d: str, e: str, i: int, j: int,
                  w: int, rw: int, smart: bool) -> bool:
    """
    pre: _pre(a, b, c, d, e, i, j, w, rw)
    post: False
    """
    CASE.run([a, b, c, d, e], [i, j], w, rw, smart)
    return True


# ---- C04-e: the default renderer only trims trailing whitespace -----------

class RenderCase(base.CaseBase):
    """Symbolic *content* (length <= 3 each) because rstrip is the subject."""

    def __init__(self, params):
        super().__init__(params)
        self.shape = _thaw(params['shape'])
        self.nleaves = refsem.shape_stats(self.shape)[1]
        self.anns = [Tag(0), Tag(1), Tag(2)]

    def pre(self, leaves, w):
        for k, x in enumerate(leaves):
            if k < self.nleaves:
                if not (1 <= len(x) <= 2):
                    return False
                for ch in x:
                    if ch not in ' x\t':
                        return False
            elif x != 'u':
                return False
        return 1 <= w <= 12

    def run(self, leaves, w):
        doc = refsem.build(self.shape, leaves, [2, 3], self.anns)
        frac = 1.0 if self.native else stubs.Frac(w, w)
        stream = list(L.layout_smart(doc, width=w, ribbon_frac=frac))
        stream2 = list(stream)
        text = default_render_to_str(stream2)
        # reference: raw text, each line with an all-whitespace suffix removed
        raw_lines = []
        cur = ''
        for x in stream:
            if isinstance(x, str):
                cur = cur + x
            elif isinstance(x, L.SLine):
                raw_lines.append(cur)
                cur = ' ' * x.indent
        raw_lines.append(cur)
        got_lines = text.split('\n')
        if len(got_lines) != len(raw_lines):
            return self.fail('C04:renderer-changes-line-structure',
                             lambda: '%r vs %r' % (got_lines, raw_lines))
        for g, r in zip(got_lines, raw_lines):
            if not r.startswith(g):
                return self.fail('C04:renderer-alters-text',
                                 lambda: '%r vs %r' % (g, r))
            suffix = r[len(g):]
            if suffix.strip() != '':
                return self.fail('C04:renderer-drops-non-whitespace',
                                 lambda: '%r vs %r' % (g, r))
        return True

    def run_native(self, args):
        return self.run([args['a'], args['b'], args['c']], args['w'])


def _pre_r(a, b, c, w):
    return CASE.pre([a, b, c], w)


def h_render(a: str, b: str, c: str, w: int) -> bool:
    """
    pre: _pre_r(a, b, c, w)
    post: _
    """
    return CASE.run([a, b, c], w)


def h_render_twin(a: str, b: str, c: str, w: int) -> bool:
    """
    pre: _pre_r(a, b, c, w)
    post: False
    """
    CASE.run([a, b, c], w)
    return True


def _install(case):
    global CASE
    CASE = case


FAMILIES = {
    'layout': base.Family('layout', h_layout, h_layout_twin, LayoutCase, _install),
    'render': base.Family('render', h_render, h_render_twin, RenderCase, _install),
}


def run_case(task):
    return base.generic_run_case(FAMILIES, task)


def replay_case(task):
    return base.generic_replay_case(FAMILIES, task)


def cases(tier, seed):
    out = []
    cur = gen_docs.curated_full()
    for n, s in cur:
        out.append({'name': 'cur:' + n, 'family': 'layout', 'params': {'shape': s},
                    'budget': 90.0 if tier == 'quick' else 300.0,
                    'twin': n in ('bracket2', 'fill3', 'ann-nested')})
    for n, s in cur:
        if wants_prelayout(s):
            out.append({'name': 'pre:' + n, 'family': 'layout',
                        'params': {'shape': s, 'prelayout': True},
                        'budget': 90.0 if tier == 'quick' else 300.0})
    en = gen_docs.enumerated(1, True)
    for n, s in en:
        out.append({'name': n, 'family': 'layout', 'params': {'shape': s},
                    'budget': 40.0})
    import random
    rnd = random.Random(seed * 7919 + 4)
    e2 = gen_docs.enumerated(2, True)[len(en):]
    k2 = 150 if tier == 'quick' else 2500
    for n, s in rnd.sample(e2, min(k2, len(e2))):
        out.append({'name': n, 'family': 'layout', 'params': {'shape': s},
                    'budget': 40.0 if tier == 'quick' else 90.0})
    for n, s in gen_docs.random_shapes(60 if tier == 'quick' else 400, seed + 4, True,
                                       max_nodes=7 if tier == 'quick' else 9):
        out.append({'name': n, 'family': 'layout', 'params': {'shape': s},
                    'budget': 40.0 if tier == 'quick' else 120.0})
    # renderer
    a = gen_docs.X
    rshapes = [
        ('r-trailing', gen_docs.number(gen_docs.cat(a, gen_docs.HARD, a))),
        ('r-grp', gen_docs.number(gen_docs.grp(gen_docs.cat(a, gen_docs.LINE, a, gen_docs.LINE, a)))),
        ('r-ann', gen_docs.number(gen_docs.cat(a, gen_docs.ann(0, a), gen_docs.HARD, gen_docs.ann(1, gen_docs.cat(a, gen_docs.S(' ')))))),
    ]
    for n, s in rshapes:
        out.append({'name': 'render:' + n, 'family': 'render', 'params': {'shape': s},
                    'budget': 120.0 if tier == 'quick' else 400.0, 'twin': n == 'r-trailing'})
    return out


def evidence(tier, seed, tasks, results):
    return {
        'coverage': {
            'bounds': {
                'text leaf length': '1..%d (symbolic, all at once)' % MAXLEN,
                'nest/hang offset': '0..%d (symbolic) plus the constants of curated shapes' % MAXOFF,
                'page width': '1..%d (symbolic)' % MAXW,
                'ribbon width': '1..width (symbolic; ribbon_frac = rw/width)',
                'strategy': 'layout_smart and layout_fast (symbolic bool)',
                'shapes': 'curated idioms + all shapes with <= 1 combinator node + seeded sample of 2-node shapes'
                          + (' + seeded random shapes of 5..8 nodes' if tier == 'thorough' else ''),
                'renderer sub-check': 'symbolic content over {space, x, tab}, length 1..2 per leaf, width 1..12',
            },
            'outside_the_claim': 'shapes beyond the enumeration bound; text longer than 30; widths above 200; '
                                 'ribbon fractions that are not of the form rw/width',
        },
        'assumptions': [
            'lemma L1 (checked by ./check C05): round(min(1.0, rw/w) * w) == min(rw, w) for 1 <= rw, w <= 200 '
            '- the ribbon float computation is replaced by this integer function in symbolic runs',
            'CrossHair 0.0.110 models of Python built-ins; z3 5.1',
            'reference semantics vf/refsem.py (weakest reading of "some assignment": modes chosen independently per group / fill item)',
        ],
    }
