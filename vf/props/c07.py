"""C07 - bundled printers are total, and faithful for standard-library types.

Family 'timedelta': pretty_timedelta on a timedelta whose three normalised
  fields are solver variables over their FULL ranges; integer leaves stay
  symbolic (tagged), the printed arithmetic is interpreted and z3 proves the
  total equals the original delta.
Family 'dtrecord': pretty_datetime / pretty_time / pretty_date on attribute
  records with symbolic fields over the documented ranges; the recorded
  constructor arguments (or documented defaults) must equal the fields.
Family 'stdlib': generated boundary instances of every bundled type x nesting
  contexts with symbolic width/ribbon; the output is evaluated back on every
  path; UserWarning (= repr fallback) is a failure.
"""
import importlib
import warnings

from crosshair.tracers import NoTracing

from vf import base, pfbase
from vf.pfbase import PP
from vf.props.c02 import Box, register_box

PS = importlib.import_module('prettyprinter.pretty_stdlib')
from prettyprinter.doctypes import Doc, Concat, Group

CASE = None


def _install(case):
    global CASE
    CASE = case
    pfbase.install(case)


# ---------------------------------------------------------------------------
# timedelta, full range

class Tagged(Doc):
    __slots__ = ('v',)

    def __init__(self, v):
        self.v = v


class Recorded(Doc):
    __slots__ = ('fn', 'args', 'kwargs')

    def __init__(self, fn, args, kwargs):
        self.fn = fn
        self.args = args
        self.kwargs = kwargs


UNITS = {'days': 86400 * 10 ** 6, 'hours': 3600 * 10 ** 6, 'minutes': 60 * 10 ** 6,
         'seconds': 10 ** 6, 'milliseconds': 1000, 'microseconds': 1}


def eval_arith(doc):
    """Value of a document made of tagged ints, ' ', '*' and '+' (the days
    expression 'Y * 365 + D'); None if it has another form."""
    if isinstance(doc, Tagged):
        return doc.v
    if not isinstance(doc, Concat):
        return None
    toks = []
    for d in doc.docs:
        if isinstance(d, Tagged):
            toks.append(('n', d.v))
        elif d is PS.MUL_OP:
            toks.append(('*', None))
        elif d is PS.ADD_OP:
            toks.append(('+', None))
        elif d == ' ':
            continue
        else:
            return None
    # grammar: term ('+' term)* ; term: n ('*' n)*
    total = 0
    i = 0
    while i < len(toks):
        if toks[i][0] != 'n':
            return None
        term = toks[i][1]
        i += 1
        while i < len(toks) and toks[i][0] == '*':
            if i + 1 >= len(toks) or toks[i + 1][0] != 'n':
                return None
            term = term * toks[i + 1][1]
            i += 2
        total = total + term
        if i < len(toks):
            if toks[i][0] != '+':
                return None
            i += 1
            if i >= len(toks):
                return None
    return total


class TimedeltaCase(base.CaseBase):
    def pre(self, days, seconds, us):
        return (-999999999 <= days and days <= 999999999 and 0 <= seconds and seconds < 86400
                and 0 <= us and us < 1000000)

    def run(self, days, seconds, us):
        import datetime
        delta = datetime.timedelta(days=days, seconds=seconds, microseconds=us)
        if self.native:
            return self.run_concrete(delta)
        ctx = PP.PrettyContext(indent=4, depth_left=float('inf'))
        saved = (PS.pretty_python_value, PS.build_fncall)
        PS.pretty_python_value = lambda v, ctx: Tagged(v)
        PS.build_fncall = lambda ctx, fn, argdocs=(), kwargdocs=(), **kw: Recorded(fn, list(argdocs), list(kwargdocs))
        try:
            try:
                doc = PS.pretty_timedelta(delta, ctx)
            except Exception as e:
                exc = type(e).__name__
                return self.fail('C07:timedelta-printer-raises-' + exc)
        finally:
            PS.pretty_python_value, PS.build_fncall = saved
        negative = False
        if isinstance(doc, Concat):
            if len(doc.docs) != 2 or doc.docs[0] is not PS.NEG_OP:
                return self.fail('C07:timedelta-unexpected-document')
            negative = True
            doc = doc.docs[1]
        if isinstance(doc, Group):
            doc = doc.doc
        if not isinstance(doc, Recorded) or doc.args:
            return self.fail('C07:timedelta-unexpected-document')
        total = 0
        seen = []
        for k, vdoc in doc.kwargs:
            if k not in UNITS or k in seen:
                return self.fail('C07:timedelta-bad-keyword')
            seen.append(k)
            v = eval_arith(vdoc)
            if v is None:
                return self.fail('C07:timedelta-unexpected-document')
            total = total + v * UNITS[k]
        if negative:
            total = -total
        want = (days * 86400 + seconds) * 10 ** 6 + us
        if total != want:
            return self.fail('C07:timedelta-expression-denotes-other-delta')
        return True

    def run_concrete(self, delta):
        import datetime
        with warnings.catch_warnings(record=True) as wlist:
            warnings.simplefilter('always')
            text = pfbase.native_pformat(delta, 79, 71)
        if wlist:
            return self.fail('C07:timedelta-printer-raises-warning', lambda: text)
        try:
            got = pfbase.eval_text(text, {'datetime': datetime})
        except Exception as e:
            return self.fail('C07:timedelta-expression-does-not-evaluate', lambda: text)
        if got != delta:
            return self.fail('C07:timedelta-expression-denotes-other-delta', lambda: '%r -> %s' % (delta, text))
        return True

    def run_native(self, args):
        return self.run(args['days'], args['seconds'], args['us'])


def _pre_td(days, seconds, us):
    return CASE.pre(days, seconds, us)


def h_td(days: int, seconds: int, us: int) -> bool:
    """
    pre: _pre_td(days, seconds, us)
    post: _
    """
    return CASE.run(days, seconds, us)


def h_td_twin(days: int, seconds: int, us: int) -> bool:
    """
    pre: _pre_td(days, seconds, us)
    post: False
    """
    CASE.run(days, seconds, us)
    return True


# ---------------------------------------------------------------------------
# datetime / time / date records

class Rec:
    """Plain attribute record standing for a datetime / time / date."""

    def __init__(self, **kw):
        self.__dict__.update(kw)


class TZ:
    def __repr__(self):
        return 'TZ'


_TZ = TZ()


class DtRecordCase(base.CaseBase):
    def __init__(self, params):
        super().__init__(params)
        self.kind = params['kind']        # 'datetime' | 'time' | 'date'

    def pre(self, year, month, day, hour, minute, second, us, fold, tz):
        return (1 <= year and year <= 9999 and 1 <= month and month <= 12 and
                1 <= day and day <= 31 and 0 <= hour and hour < 24 and
                0 <= minute and minute < 60 and 0 <= second and second < 60 and
                0 <= us and us < 1000000 and 0 <= fold and fold <= 1)

    def run(self, year, month, day, hour, minute, second, us, fold, tz):
        tzinfo = _TZ if tz else None
        if self.native:
            return self.run_concrete(year, month, day, hour, minute, second, us, fold, tz)
        rec = Rec(year=year, month=month, day=day, hour=hour, minute=minute,
                  second=second, microsecond=us, fold=fold, tzinfo=tzinfo)
        calls = []
        saved = PS.pretty_call_alt

        def recorder(ctx, fn, args=(), kwargs=()):
            calls.append((fn, tuple(args), list(kwargs.items()) if isinstance(kwargs, dict) else list(kwargs)))
            return 'recorded'
        PS.pretty_call_alt = recorder
        ctx = PP.PrettyContext(indent=4, depth_left=float('inf'))
        try:
            try:
                if self.kind == 'datetime':
                    PS.pretty_datetime(rec, ctx)
                elif self.kind == 'time':
                    PS.pretty_time(rec, ctx)
                else:
                    PS.pretty_date(rec, ctx)
            except Exception as e:
                return self.fail('C07:%s-printer-raises-%s' % (self.kind, type(e).__name__))
        finally:
            PS.pretty_call_alt = saved
        if len(calls) != 1:
            return self.fail('C07:%s-not-one-constructor-call' % self.kind)
        fn, args, kwargs = calls[0]
        import datetime
        if self.kind == 'datetime':
            order = ['year', 'month', 'day', 'hour', 'minute', 'second', 'microsecond', 'tzinfo']
            defaults = {'hour': 0, 'minute': 0, 'second': 0, 'microsecond': 0, 'tzinfo': None, 'fold': 0}
            want_fn = datetime.datetime
            fields = ['year', 'month', 'day', 'hour', 'minute', 'second', 'microsecond', 'tzinfo', 'fold']
        elif self.kind == 'time':
            order = ['hour', 'minute', 'second', 'microsecond', 'tzinfo']
            defaults = {'hour': 0, 'minute': 0, 'second': 0, 'microsecond': 0, 'tzinfo': None, 'fold': 0}
            want_fn = datetime.time
            fields = ['hour', 'minute', 'second', 'microsecond', 'tzinfo', 'fold']
        else:
            order = ['year', 'month', 'day']
            defaults = {}
            want_fn = datetime.date
            fields = ['year', 'month', 'day']
        if fn is not want_fn:
            return self.fail('C07:%s-wrong-constructor' % self.kind)
        if len(args) > len(order):
            return self.fail('C07:%s-too-many-positional' % self.kind)
        bound = {}
        for name, v in zip(order, args):
            bound[name] = v
        for name, v in kwargs:
            if name in bound or name not in fields:
                return self.fail('C07:%s-bad-keyword' % self.kind)
            bound[name] = v
        for name in fields:
            if name in bound:
                got = bound[name]
            elif name in defaults:
                got = defaults[name]
            else:
                return self.fail('C07:%s-required-field-missing' % self.kind)
            want = getattr(rec, name)
            if name == 'tzinfo':
                if got is not want:
                    return self.fail('C07:%s-field-differs:tzinfo' % self.kind)
            elif got != want:
                return self.fail('C07:%s-field-differs:%s' % (self.kind, name))
        return True

    def run_concrete(self, year, month, day, hour, minute, second, us, fold, tz):
        import datetime
        tzinfo = datetime.timezone.utc if tz else None
        try:
            if self.kind == 'datetime':
                v = datetime.datetime(year, month, day, hour, minute, second, us, tzinfo, fold=fold)
            elif self.kind == 'time':
                v = datetime.time(hour, minute, second, us, tzinfo, fold=fold)
            else:
                v = datetime.date(year, month, day)
        except ValueError:
            return True        # e.g. 31 February: not an instance of the type
        with warnings.catch_warnings(record=True) as wlist:
            warnings.simplefilter('always')
            text = pfbase.native_pformat(v, 79, 71)
        if wlist:
            return self.fail('C07:%s-printer-failed' % self.kind, lambda: text)
        try:
            got = pfbase.eval_text(text, {'datetime': datetime})
        except Exception:
            return self.fail('C07:%s-expression-does-not-evaluate' % self.kind, lambda: text)
        if not (got == v and getattr(got, 'fold', 0) == getattr(v, 'fold', 0) and
                getattr(got, 'tzinfo', None) == getattr(v, 'tzinfo', None)):
            return self.fail('C07:%s-field-differs' % self.kind, lambda: '%r -> %s' % (v, text))
        return True

    def run_native(self, a):
        return self.run(a['year'], a['month'], a['day'], a['hour'], a['minute'],
                        a['second'], a['us'], a['fold'], a['tz'])


def _pre_dt(year, month, day, hour, minute, second, us, fold, tz):
    return CASE.pre(year, month, day, hour, minute, second, us, fold, tz)


def h_dt(year: int, month: int, day: int, hour: int, minute: int, second: int,
         us: int, fold: int, tz: bool) -> bool:
    """
    pre: _pre_dt(year, month, day, hour, minute, second, us, fold, tz)
    post: _
    """
    return CASE.run(year, month, day, hour, minute, second, us, fold, tz)


def h_dt_twin(year: int, month: int, day: int, hour: int, minute: int, second: int,
              us: int, fold: int, tz: bool) -> bool:
    """
    pre: _pre_dt(year, month, day, hour, minute, second, us, fold, tz)
    post: False
    """
    CASE.run(year, month, day, hour, minute, second, us, fold, tz)
    return True


# ---------------------------------------------------------------------------
# concrete boundary instances, layout symbolic

def stdlib_ns():
    import collections
    import datetime
    import functools
    import pathlib
    import time
    import types
    import uuid
    import enum
    import vf
    import vf.subcls
    import vf.stdvals
    ns = {'datetime': datetime, 'collections': collections, 'functools': functools,
          'pathlib': pathlib, 'time': time, 'types': types, 'uuid': uuid, 'enum': enum,
          'vf': vf, 'mappingproxy': types.MappingProxyType}
    try:
        import pytz
        ns['pytz'] = pytz
    except ImportError:
        pass
    return ns


CONTEXTS = {
    'top': (lambda v: v, lambda g: g),
    'elem': (lambda v: [0, v], lambda g: g[1]),
    'dval': (lambda v: {'key': v}, lambda g: g['key']),
    'arg': (lambda v: Box(v), lambda g: g.x),
}


def equal_as(kind, got, want):
    import functools
    if type(got) is not type(want):
        return False
    if kind == 'builtin':
        return got == want or (got != got and want != want)
    if kind == 'partial':
        return (got.func is want.func and got.args == want.args and
                got.keywords == want.keywords)
    if kind == 'exception':
        return got.args == want.args
    if kind == 'datetime':
        return (got == want and got.fold == want.fold and
                (got.tzinfo is None) == (want.tzinfo is None) and
                (got.tzinfo is None or got.utcoffset() == want.utcoffset()))
    if kind == 'time':
        return (got == want and got.fold == want.fold and
                (got.tzinfo is None) == (want.tzinfo is None))
    if kind == 'timezone':
        import datetime
        # "reconstructs an equal object": timezone equality is by offset (a
        # zero-offset named zone legitimately prints as timezone.utc)
        return got == want and got.utcoffset(None) == want.utcoffset(None)
    if kind == 'defaultdict':
        return got == want and got.default_factory is want.default_factory
    if kind == 'deque':
        return got == want and got.maxlen == want.maxlen
    if kind == 'ordered':
        return list(got.items()) == list(want.items())
    if kind == 'chainmap':
        return got.maps == want.maps
    if kind == 'enum':
        return got is want
    if kind == 'namespace':
        return got == want
    return got == want


class StdlibCase(pfbase.CfgCase):
    def __init__(self, params):
        super().__init__(params)
        register_box()
        self.src = params['value']
        self.kind = params['kind']
        self.ns = stdlib_ns()
        self.inst = eval(self.src, dict(self.ns))
        self.ctxname = params.get('context', 'top')
        self.value = CONTEXTS[self.ctxname][0](self.inst)

    def run(self, w, rw):
        with warnings.catch_warnings(record=True) as wlist:
            warnings.simplefilter('always')
            try:
                if self.native:
                    text = pfbase.native_pformat(self.value, w, rw)
                else:
                    text = pfbase.ptext(self.value, w, rw)
            except Exception as e:
                exc = type(e).__name__
                return self.fail('C07:pformat-raises-%s:%s' % (exc, self.kind),
                                 lambda: '%s: %s for %s' % (exc, e, self.src))
        with NoTracing():
            return self.judge(text, w, rw, wlist)

    def judge(self, text, w, rw, wlist):
        describe = lambda: 'value=%s kind=%s context=%s w=%r rw=%r\noutput:\n%s\nwarnings=%s' % (
            self.src, self.kind, self.ctxname, w, rw, text,
            [str(x.message)[:400] for x in wlist])
        if any(issubclass(x.category, UserWarning) for x in wlist):
            return self.fail('C07:printer-failed-repr-fallback:' + self.kind, describe)
        try:
            got = pfbase.eval_text(text, dict(self.ns))
        except Exception as e:
            return self.fail('C07:output-does-not-evaluate:' + self.kind,
                             lambda: describe() + '\n%s: %s' % (type(e).__name__, e))
        try:
            inner = CONTEXTS[self.ctxname][1](got)
        except Exception:
            return self.fail('C07:context-changed:' + self.kind, describe)
        try:
            same = equal_as(self.kind, inner, self.inst)
        except Exception:
            same = False
        if not same:
            return self.fail('C07:reconstructs-unequal-object:' + self.kind, describe)
        return True


# built-in values, one per branch of the bundled built-in printers (totality half)
BUILTIN_TOTAL = [
    'set()', '{1}', '{1, 2}', "{'only'}", '{(1, 2)}', 'frozenset()', 'frozenset([1])', 'frozenset([1, 2])',
    '()', '(1,)', '(1, 2)', '[]', '[1]', '[[1]]', '[{1}]', '[frozenset([1])]', '({1},)', "{'k': {1}}",
    '{}', '{1: 2}', '{1: 2, 3: 4}', '{1: 2, 3: 4, 5: 6}', '{(1,): [2]}', '{frozenset([1]): {2}}',
    "''", "b''", "'two words'", "b'two words'", "'%s'" % ('word ' * 30), "b'%s'" % ('word ' * 30),
    '0', '-1', '10**30', 'True', 'None', '0.0', '-0.0', '1e300', "float('inf')", "float('-inf')", "float('nan')",
    'list(range(60))', 'tuple(range(60))', 'set(range(60))', 'frozenset(range(60))', 'dict.fromkeys(range(60))',
    '[[], (), {}, set(), frozenset()]', "[{1}, {2}, [{3}]]", '{1: {2: {3: {4}}}}',
]


FAMILIES = {
    'timedelta': base.Family('timedelta', h_td, h_td_twin, TimedeltaCase, _install),
    'dtrecord': base.Family('dtrecord', h_dt, h_dt_twin, DtRecordCase, _install),
    'stdlib': pfbase.cfg_family('stdlib', StdlibCase),
}


def run_case(task):
    return base.generic_run_case(FAMILIES, task)


def replay_case(task):
    return base.generic_replay_case(FAMILIES, task)


def cases(tier, seed):
    from vf import stdvals
    out = []
    out.append({'name': 'timedelta:full-range', 'family': 'timedelta', 'params': {},
                'budget': 200.0 if tier == 'quick' else 900.0, 'path_timeout': 40.0, 'twin': True})
    for kind in ('datetime', 'time', 'date'):
        out.append({'name': 'record:%s' % kind, 'family': 'dtrecord', 'params': {'kind': kind},
                    'budget': 200.0 if tier == 'quick' else 900.0, 'path_timeout': 40.0,
                    'twin': kind == 'time'})
    ctxs = list(CONTEXTS)
    n = 0
    for kind, src in stdvals.instances():
        for ci, c in enumerate(ctxs):
            n += 1
            if tier == 'quick' and ci != (n // 4) % len(ctxs):
                continue
            out.append({'name': 'std:%s:%s|%s' % (kind, src[:50], c), 'family': 'stdlib',
                        'params': {'value': src, 'kind': kind, 'context': c, 'slice': 'page'},
                        'budget': 60.0 if tier == 'quick' else 200.0, 'path_timeout': 30.0,
                        'twin': n == 2})
            if tier == 'thorough' and c == 'top':
                out.append({'name': 'std:%s:%s|%s|ribbon' % (kind, src[:50], c), 'family': 'stdlib',
                            'params': {'value': src, 'kind': kind, 'context': c, 'slice': 'ribbon'},
                            'budget': 200.0})
    for j, src in enumerate(BUILTIN_TOTAL):
        out.append({'name': 'builtin:%s|default' % src[:40], 'family': 'stdlib',
                    'params': {'value': src, 'kind': 'builtin', 'context': 'top', 'slice': 'default'},
                    'budget': 60.0})
        if tier == 'thorough' or j % 4 == 1:
            out.append({'name': 'builtin:%s|page' % src[:40], 'family': 'stdlib',
                        'params': {'value': src, 'kind': 'builtin', 'context': ctxs[j % len(ctxs)], 'slice': 'page'},
                        'budget': 60.0 if tier == 'quick' else 200.0, 'path_timeout': 30.0})
    return out


def evidence(tier, seed, tasks, results):
    from vf import stdvals
    kinds = {}
    for k, s in stdvals.instances():
        kinds[k] = kinds.get(k, 0) + 1
    return {
        'coverage': {
            'bounds': {
                'timedelta': 'days -999999999..999999999, seconds 0..86399, microseconds 0..999999: all symbolic, full range',
                'datetime/time/date records': 'year 1..9999, month 1..12, day 1..31, hour, minute, second, microsecond full ranges, fold 0..1, tzinfo present/absent: all symbolic',
                'stdlib instances': kinds,
                'built-in values (totality)': len(BUILTIN_TOTAL),
                'contexts': list(CONTEXTS),
                'width': '1..200 symbolic (page slice)' + ('; ribbon slice at top level' if tier == 'thorough' else ''),
            },
            'outside_the_claim': 'singledispatch on symbolic datetime objects (CrossHair proxies are not instances of the real classes): dispatch is exercised by the concrete family only',
        },
        'assumptions': [
            'timedelta family: pretty_python_value / build_fncall inside pretty_stdlib are rebound to taggers/recorders (the rendering of the recorded call is covered by the concrete family and C17)',
            'record family: pretty_call_alt inside pretty_stdlib is rebound to a recorder; records are plain attribute objects',
            'the evaluation namespace binds the modules of the types plus mappingproxy',
            'lemma L1; CrossHair; z3',
        ],
    }
