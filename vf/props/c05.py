"""C05 - a group laid out on one line never overflows the page or the ribbon.
(Also hosts the shared machinery of C06 and discharges lemma L1.)

Symbolic: every text length (1..30), nest offsets (0..8), page width (1..200),
ribbon width (1..w), strategy.  Concrete: classic-algebra document shapes.
"""
import random

from vf import base, refsem, gen_docs, stubs, lemmas
from vf.refsem import F, B
from vf.props import c04
from vf.props.c04 import Tag, _thaw, MAXLEN, MAXW, MAXOFF

from prettyprinter import layout as L

CASE = None
RULE = 'C05'


class WidthCase(base.CaseBase):
    rule = 'C05'

    def __init__(self, params):
        super().__init__(params)
        self.shape = _thaw(params['shape'])
        n, nl, no, ntag, kinds = refsem.shape_stats(self.shape)
        self.nleaves = nl
        self.noffs = no
        self.anns = [Tag(0), Tag(1)]
        self.rule = params.get('rule', self.rule)
        # 'frac' cases: page width and ribbon fraction are concrete (any float
        # in (0, 1], not only rw / width), everything else stays symbolic
        self.frac = params.get('frac')
        self.cw = params.get('w')

    def pre(self, leaves, offs, w, rw):
        for k, x in enumerate(leaves):
            if k < self.nleaves:
                if not (1 <= len(x) <= MAXLEN):
                    return False
            elif len(x) != 1:
                return False
        for k, o in enumerate(offs):
            if k < self.noffs:
                if not (0 <= o <= MAXOFF):
                    return False
            elif o != 0:
                return False
        if self.frac is not None:
            return w == self.cw and rw == 1
        return 1 <= rw and rw <= w and w <= MAXW

    def run(self, leaves, offs, w, rw, smart):
        doc = refsem.build(self.shape, leaves, offs, self.anns)
        c04.prelayout(doc, self.params)
        fn = L.layout_smart if smart else L.layout_fast
        if self.frac is not None:
            # the ribbon width as the documented formula defines it (Python's
            # round: half to even), computed on concrete numbers
            w = self.cw
            frac = self.frac
            rw = max(0, min(w, round(frac * w)))
        else:
            frac = stubs.ribbon_frac_arg(rw, w, self.native)
        stream = list(fn(doc, width=w, ribbon_frac=frac))
        toks = refsem.tokenize(stream, leaves, self.native)
        cols = refsem.columns(toks, leaves)
        ends = refsem.line_ends(toks, cols)
        rwe = rw if rw < w else w
        describe = lambda: 'shape=%s w=%r rw=%r%s smart=%r\nstream=%r\ntext=\n%s' % (
            gen_docs.show(self.shape), w, rw,
            '' if self.frac is None else ' (ribbon_frac=%r)' % self.frac, smart, stream,
            refsem.plain_text(toks, leaves))

        if self.rule == 'C05':
            def group_ok(mode, s, ind, pos, p2, rest, rendered_forced):
                if mode != F:
                    return True
                has_text = False
                for q in range(pos, p2):
                    k = toks[q][0]
                    if k == 'L':
                        return True        # spans several lines: C04-c's business
                    if k in ('T', 'S'):
                        has_text = True
                if not has_text:
                    return True
                end = ends[pos]
                if end > w:
                    return False
                if end - ind > rwe:
                    return False
                return True
            prefer = B
        else:
            def group_ok(mode, s, ind, pos, p2, rest, rendered_forced):
                if mode != B:
                    return True
                if refsem.has_forced(s[1]):
                    return True            # "a group that contains no forced break"
                c = cols[pos]
                min_nesting = c if c < ind else ind
                try:
                    need, forced_seen, later = refsem.flat_lookahead(
                        refsem.rest_to_list((ind, F, s[1]), rest), w, min_nesting,
                        smart, leaves, offs, start_col=c)
                except refsem.Unmodelled:
                    return True
                if forced_seen:
                    return True
                a1 = w - c
                a2 = ind + rwe - c
                avail = a1 if a1 < a2 else a2
                if need > avail:
                    return True
                if smart and later:
                    return True
                return False
            prefer = F

        m = refsem.Matcher(toks, cols, leaves, offs, self.anns, self.native,
                           prefer=prefer, strict_forced=False,
                           check_indent=False, group_ok=group_ok)
        if m.run(self.shape):
            return True
        m0 = refsem.Matcher(toks, cols, leaves, offs, self.anns, self.native,
                            prefer=prefer, strict_forced=False, check_indent=False)
        if not m0.run(self.shape):
            return self.fail(self.rule + ':stream-not-in-layout-set', describe)
        if self.rule == 'C05':
            return self.fail('C05:flat-group-overflows', describe)
        return self.fail('C06:group-broken-although-it-fits', describe)

    def run_native(self, args):
        leaves = [args['a'], args['b'], args['c'], args['d'], args['e']]
        offs = [args['i'], args['j']]
        return self.run(leaves, offs, args['w'], args['rw'], args['smart'])


def _pre(a, b, c, d, e, i, j, w, rw):
    return CASE.pre([a, b, c, d, e], [i, j], w, rw)


def h_width(a: str, b: str, c: str, d: str, e: str, i: int, j: int,
            w: int, rw: int, smart: bool) -> bool:
    """
    pre: _pre(a, b, c, d, e, i, j, w, rw)
    post: _
    """
    return CASE.run([a, b, c, d, e], [i, j], w, rw, smart)


def h_width_twin(a: str, b: str, c: str, d: str, e: str, i: int, j: int,
                 w: int, rw: int, smart: bool) -> bool:
    """
    pre: _pre(a, b, c, d, e, i, j, w, rw)
    post: False
    """
    CASE.run([a, b, c, d, e], [i, j], w, rw, smart)
    return True


def _install(case):
    global CASE
    CASE = case


def _make(params):
    p = dict(params)
    p.setdefault('rule', RULE)
    return WidthCase(p)


FAMILIES = {
    'width': base.Family('width', h_width, h_width_twin, _make, _install),
}


def run_case(task):
    return base.generic_run_case(FAMILIES, task)


def replay_case(task):
    return base.generic_replay_case(FAMILIES, task)


WITNESS_SHAPE = ('grp', ('cat', [('t', 0), ('line',), ('t', 1)]))


def lemma_task(task, rule=None):
    """Lemma L1; a refuted lemma is turned into a native witness through the
    real layout engine before anything is reported."""
    rule = rule or RULE
    r = lemmas.lemma_task(task)
    if r.get('verdict') != 'LEMMA-REFUTED':
        return r
    rw, w = r['model']['rw'], r['model']['w']
    got, want = r['model']['got'], r['model']['want']
    lo, hi = min(got, want), max(got, want)
    for total in range(max(3, lo - 1), hi + 3):
        for ind in (0,):
            args = dict(a='a' * (total - 2), b='b', c='c', d='d', e='e', i=0, j=0,
                        w=w, rw=rw, smart=True)
            case = WidthCase({'shape': WITNESS_SHAPE, 'rule': rule})
            case.native = True
            if not case.run_native(args):
                key, detail = case.last_fail
                r.update(verdict='VIOLATION', key=key,
                         detail='%s\n(found via lemma L1: %s)' % (detail, r['message']),
                         params={'shape': WITNESS_SHAPE, 'rule': rule}, args=args,
                         family='width')
                return r
    r.update(verdict='MACHINERY',
             message='lemma L1 refuted (%s) but no witness document violates %s natively: '
                     'the ribbon stub no longer models the code, nothing is claimed' % (r['message'], rule))
    return r


def shape_cases(tier, seed, rule):
    out = []
    for n, s in gen_docs.curated_classic():
        out.append({'name': 'cur:' + n, 'family': 'width', 'params': {'shape': s},
                    'budget': 90.0 if tier == 'quick' else 300.0,
                    'twin': n in ('bracket2', 'nested-grp-r')})
    for n, s in gen_docs.curated_classic():
        if c04.wants_prelayout(s):
            out.append({'name': 'pre:' + n, 'family': 'width', 'params': {'shape': s, 'prelayout': True},
                        'budget': 90.0 if tier == 'quick' else 300.0})
    en = gen_docs.enumerated(1, False)
    for n, s in en:
        if refsem.contains_kind(s, ('grp',)):
            out.append({'name': n, 'family': 'width', 'params': {'shape': s}, 'budget': 40.0})
    rnd = random.Random(seed * 7919 + (5 if rule == 'C05' else 6))
    e2 = [x for x in gen_docs.enumerated(2, False)[len(en):]
          if refsem.contains_kind(x[1], ('grp',))]
    k2 = 150 if tier == 'quick' else len(e2)
    for n, s in rnd.sample(e2, min(k2, len(e2))):
        out.append({'name': n, 'family': 'width', 'params': {'shape': s},
                    'budget': 40.0 if tier == 'quick' else 90.0})
    if tier == 'quick':
        for n, s in gen_docs.random_shapes(60, seed + 5, False, max_nodes=7):
            if refsem.contains_kind(s, ('grp',)):
                out.append({'name': n, 'family': 'width', 'params': {'shape': s}, 'budget': 40.0})
    if tier == 'thorough':
        e3 = [x for x in gen_docs.enumerated(3, False)
              if x[0].startswith('e3:') and refsem.contains_kind(x[1], ('grp',))]
        for n, s in rnd.sample(e3, min(1500, len(e3))):
            out.append({'name': n, 'family': 'width', 'params': {'shape': s}, 'budget': 90.0})
        for n, s in gen_docs.random_shapes(150, seed + 5, False):
            if refsem.contains_kind(s, ('grp',)):
                out.append({'name': n, 'family': 'width', 'params': {'shape': s}, 'budget': 120.0})
    return out


# (page width, ribbon fraction): fraction * width on a half (the rounding rule
# decides), just below / above one, tiny (ribbon 0), and 1.0
FRAC_PAIRS_QUICK = [(5, 0.5), (7, 0.5), (10, 0.25), (6, 0.75), (12, 0.375),
                    (8, 0.3), (11, 0.9), (4, 0.1), (9, 1.0)]
FRAC_SHAPES = ('bracket2', 'nested-grp-r', 'grp-then-deeper-grp', 'two-grps',
               'ribbon-nest', 'align-in-grp', 'grp-on-deeper-line')


def frac_pairs(tier):
    if tier == 'quick':
        return FRAC_PAIRS_QUICK
    out = list(FRAC_PAIRS_QUICK)
    for w in range(1, 31):
        for f in (0.5, 0.25, 0.75, 0.125, 0.375, 0.3, 0.7, 0.05, 0.95):
            half = (w * f * 2 == int(w * f * 2)) and int(w * f * 2) % 2 == 1
            if (w, f) not in out and (half or w % 10 == 0):
                out.append((w, f))
    return out


def frac_cases(tier, seed, rule):
    cur = dict(gen_docs.curated_classic())
    names = [n for n in FRAC_SHAPES if n in cur]
    if len(names) < 4:                       # curated list renamed: take the first ones
        names = [n for n, _ in gen_docs.curated_classic()][:6]
    if tier != 'quick':
        names = names + [n for n in cur if n not in names][:5]
    out = []
    for w, f in frac_pairs(tier):
        for n in names:
            out.append({'name': 'frac:%s:w%d:f%s' % (n, w, f), 'family': 'width',
                        'params': {'shape': cur[n], 'w': w, 'frac': f},
                        'budget': 40.0, 'twin': (w, f, n) == (5, 0.5, names[0])})
    return out


def cases(tier, seed):
    return (lemmas.lemma_tasks(tier, 'c05') + shape_cases(tier, seed, 'C05')
            + frac_cases(tier, seed, 'C05'))


def evidence(tier, seed, tasks, results):
    lem = [(t['name'], r.get('verdict'), r.get('solver_result'), r.get('wall_s'))
           for t, r in zip(tasks, results) if t.get('kind') == 'call']
    return {
        'coverage': {
            'bounds': {
                'text leaf length': '1..%d (symbolic)' % MAXLEN,
                'nest offset': '0..%d (symbolic)' % MAXOFF,
                'page width': '1..%d (symbolic)' % MAXW,
                'ribbon width': '1..width (symbolic), i.e. fractions ribbon_width / width; '
                                'plus concrete (width, fraction) pairs with arbitrary fractions '
                                '(halves, where the rounding rule decides; see frac_pairs)',
                'strategy': 'both (symbolic bool)',
                'shapes': 'classic algebra: curated + all shapes with a group and <= 1 combinator node '
                          '+ %s of the 2-node shapes' % ('a seeded sample' if tier == 'quick' else 'all')
                          + (' + seeded sample of 3-node shapes + random 5..8-node shapes' if tier == 'thorough' else ''),
                'lemma L1': 'all 1 <= ribbon_width <= 200, 1 <= width <= 200, bit-precise Float64 (QF_BVFP), '
                            'regenerated from the three source sites',
            },
            'lemma_L1': lem,
            'outside_the_claim': 'documents with fill / flat_choice / annotate (excluded by the statement); shapes beyond the bound',
        },
        'assumptions': [
            'CrossHair models of built-ins; z3 5.1; cvc5 1.0.3 for L1',
            'the matcher labels a group flat only where the stream forces it (weakest reading)',
        ],
    }
