"""C20 - concurrent printing from several threads is safe.

The functions on the lazily-registered-printer path (is_registered, the
registering decorator inside register_pretty, pretty_python_value) are taken
from /repo's *current source*, mechanically turned into coroutines that yield
before every statement, and executed as "threads" on the real shared module
state by a scheduler whose context-switch points are solver variables
(symbolic ints, concretised): every interleaving at statement granularity with
up to four context switches between two threads (two between three) is
explored path by path.  ``with <lock>:`` statements are modelled by a
cooperative lock (a blocked thread is not runnable).  Everything else a thread
does (singledispatch lookup, the printer itself, layout, rendering) is one
atomic step.  (The layout engine gets the same treatment separately, in
vf/props/c20l.py.)

A violation found this way is a real schedule (thread switches can happen at
any bytecode boundary, hence at any statement boundary); the absence of
violations is claimed for statement-granularity interleavings of these three
functions only.
"""
import ast
import copy
import os
import textwrap
import warnings

from crosshair.tracers import NoTracing

import prettyprinter as PKG
from vf import base
from vf.pfbase import PP
from vf.props import c15

CASE = None
REPO = os.environ.get('VERIF_REPO', '/repo')


def _install(case):
    global CASE
    CASE = case


# ---------------------------------------------------------------------------
# source -> coroutines

class Blocked:
    def __init__(self, lock):
        self.lock = lock


class CoLock:
    """Cooperative re-entrant lock standing for threading.Lock/RLock objects
    of the module while the coroutines run."""

    def __init__(self, name):
        self.name = name
        self.owner = None
        self.count = 0


def _co_acquire(lock, me):
    while lock.owner is not None and lock.owner is not me[0]:
        yield Blocked(lock)
    lock.owner = me[0]
    lock.count += 1


def _co_release(lock, me):
    lock.count -= 1
    if lock.count == 0:
        lock.owner = None


MUTABLE_CTORS = ('dict', 'list', 'set', 'WeakKeyDictionary', 'WeakSet', 'WeakValueDictionary',
                 'OrderedDict', 'defaultdict', 'Lock', 'RLock', 'singledispatch', 'deque')
ROOTS = ('python_to_sdocs', 'pretty_python_value', 'is_registered', '_run_pretty', 'register_pretty')


NOT_REBOUND = {'isinstance', 'issubclass', 'len', 'repr', 'type', 'getattr', 'hasattr', 'callable', 'id',
               'str', 'int', 'float', 'bool', 'list', 'tuple', 'dict', 'set', 'frozenset', 'iter', 'next',
               'enumerate', 'zip', 'reversed', 'sorted', 'min', 'max', 'any', 'all', 'super', 'locals',
               'globals', 'vars', 'partial', 'ValueError', 'TypeError', 'KeyError', 'format'}


def _co_call(twins):
    def call(f, *a, **k):
        co = twins.get(id(f))
        if co is not None and co[0] is f:
            return (yield from co[1](*a, **k))
        return f(*a, **k)
        yield  # pragma: no cover
    return call


def _callname(f):
    if isinstance(f, ast.Attribute):
        return f.attr
    return getattr(f, 'id', '')


def select_functions(tree):
    """Which module-level functions become coroutines: the roots plus every
    function reachable from them through calls by name that (transitively)
    touches module-level mutable state or a lock.  Everything else a thread
    executes stays one atomic step."""
    defs = {n.name: n for n in tree.body if isinstance(n, ast.FunctionDef)}
    mutable = set()
    locks = []
    for node in tree.body:
        if isinstance(node, ast.Assign):
            v = node.value
            is_mut = isinstance(v, (ast.Dict, ast.List, ast.Set)) or (
                isinstance(v, ast.Call) and _callname(v.func) in MUTABLE_CTORS)
            if is_mut:
                for t in node.targets:
                    if isinstance(t, ast.Name):
                        mutable.add(t.id)
                        if isinstance(v, ast.Call) and _callname(v.func) in ('Lock', 'RLock'):
                            locks.append(t.id)
    used = {}
    for name, fn in defs.items():
        used[name] = {n.id for n in ast.walk(fn) if isinstance(n, ast.Name)}
    calls = {name: (used[name] & set(defs)) - {name} for name in defs}
    touches = {name for name in defs if used[name] & mutable}
    changed = True
    while changed:
        changed = False
        for name in defs:
            if name not in touches and calls[name] & touches:
                touches.add(name)
                changed = True
    reach = set()
    todo = [r for r in ROOTS if r in defs]
    while todo:
        n = todo.pop()
        if n in reach:
            continue
        reach.add(n)
        todo.extend(calls[n])
    direct = {name for name in defs if used[name] & mutable}
    selected = (touches & reach) | direct | (set(ROOTS) & set(defs))
    # generators and decorated (e.g. memoised / registered) functions stay atomic
    for name in list(selected):
        fn = defs[name]
        if name in ROOTS:
            continue
        if fn.decorator_list or any(isinstance(n, (ast.Yield, ast.YieldFrom)) for n in ast.walk(fn)):
            selected.discard(name)
    return defs, selected, locks, sorted(mutable)


class ExprRewriter(ast.NodeTransformer):
    """Calls of coroutine functions inside an expression become ``yield from``."""

    def __init__(self, names):
        self.names = names

    def visit_Lambda(self, node):
        return node

    visit_ListComp = visit_SetComp = visit_DictComp = visit_GeneratorExp = visit_Lambda
    visit_FunctionDef = visit_Lambda

    def visit_Call(self, node):
        self.generic_visit(node)
        f = node.func
        if isinstance(f, ast.Name) and f.id == 'pretty_dispatch':
            node.func = ast.Name(id='__co_dispatch', ctx=ast.Load())
            return ast.YieldFrom(value=node)
        # the coroutine versions live under '__co__<name>'; a plain reference to
        # the name (e.g. partial(_run_pretty, fn)) keeps meaning the real function
        if isinstance(f, ast.Name) and f.id in self.names and f.id != 'register_pretty':
            node.func = ast.Name(id='__co__' + f.id, ctx=ast.Load())
            return ast.YieldFrom(value=node)
        if isinstance(f, ast.Call) and isinstance(f.func, ast.Name) and f.func.id == 'register_pretty' \
                and 'register_pretty' in self.names:
            f.func = ast.Name(id='__co__register_pretty', ctx=ast.Load())
            return ast.YieldFrom(value=node)
        if isinstance(f, ast.Name) and f.id not in self.names and f.id not in NOT_REBOUND:
            # possibly one of the transformed functions passed around as a value
            # (e.g. the printer handed to _run_pretty): resolved at run time
            node.args = [f] + node.args
            node.func = ast.Name(id='__co_call', ctx=ast.Load())
            return ast.YieldFrom(value=node)
        return node


class Yielder:
    """``yield <lineno>`` before every statement of the selected functions;
    ``with <lock>:`` becomes a cooperative acquire / release."""

    def __init__(self, names, lock_names):
        self.names = set(names)
        self.lock_names = set(lock_names)
        self.rewriter = ExprRewriter(self.names)
        self.points = 0

    def expr(self, node):
        return self.rewriter.visit(node) if node is not None else None

    def block(self, stmts):
        out = []
        for st in stmts:
            if isinstance(st, (ast.Global, ast.Nonlocal)) or (
                    isinstance(st, ast.Expr) and isinstance(st.value, ast.Constant)):
                # docstrings and declarations execute nothing (and produce no
                # line event a real thread could be paused at)
                out.append(st)
                continue
            self.points += 1
            out.append(ast.Expr(value=ast.Yield(value=ast.Constant(value=getattr(st, 'lineno', 0)))))
            out.extend(self.stmt(st))
        return out

    def stmt(self, st):
        if isinstance(st, ast.If):
            st.test = self.expr(st.test)
            st.body = self.block(st.body)
            st.orelse = self.block(st.orelse) if st.orelse else []
            return [st]
        if isinstance(st, ast.While):
            st.test = self.expr(st.test)
            st.body = self.block(st.body)
            st.orelse = self.block(st.orelse) if st.orelse else []
            return [st]
        if isinstance(st, ast.For):
            st.iter = self.expr(st.iter)
            st.body = self.block(st.body)
            st.orelse = self.block(st.orelse) if st.orelse else []
            return [st]
        if isinstance(st, ast.Try):
            st.body = self.block(st.body)
            for h in st.handlers:
                h.body = self.block(h.body)
            st.orelse = self.block(st.orelse) if st.orelse else []
            st.finalbody = self.block(st.finalbody) if st.finalbody else []
            return [st]
        if isinstance(st, ast.With):
            item = st.items[0]
            if (len(st.items) == 1 and isinstance(item.context_expr, ast.Name)
                    and item.context_expr.id in self.lock_names):
                lock = item.context_expr
                acquire = ast.Expr(value=ast.YieldFrom(value=ast.Call(
                    func=ast.Name(id='__co_acquire', ctx=ast.Load()),
                    args=[lock, ast.Name(id='__co_me', ctx=ast.Load())], keywords=[])))
                release = ast.Expr(value=ast.Call(
                    func=ast.Name(id='__co_release', ctx=ast.Load()),
                    args=[copy.deepcopy(lock), ast.Name(id='__co_me', ctx=ast.Load())], keywords=[]))
                return [acquire, ast.Try(body=self.block(st.body), handlers=[], orelse=[],
                                         finalbody=[release])]
            st.body = self.block(st.body)
            return [st]
        if isinstance(st, ast.FunctionDef):
            return [st]
        return [self.expr(st)]

    def transform_function(self, fn):
        fn = copy.deepcopy(fn)
        fn.decorator_list = []
        orig_name = fn.name
        fn.name = '__co__' + orig_name
        if orig_name == 'register_pretty':
            # stays an ordinary function returning the (coroutine) decorator
            new_body = []
            for st in fn.body:
                if isinstance(st, ast.FunctionDef) and st.name == 'decorator':
                    st.body = self.block(st.body)
                new_body.append(st)
            fn.body = new_body
        else:
            fn.body = self.block(fn.body)
        return fn


def build_coroutines():
    """Compile the coroutine versions from the current source; returns
    (code, yield point count, lock names, selected function names)."""
    path = os.path.join(REPO, 'prettyprinter', 'prettyprinter.py')
    tree = ast.parse(open(path).read())
    defs, selected, lock_names, mutable = select_functions(tree)
    missing = [r for r in ROOTS if r not in defs]
    if missing:
        raise RuntimeError('could not find %r in the source' % (missing,))
    y = Yielder(selected, lock_names)
    fns = [y.transform_function(defs[name]) for name in sorted(selected)]
    mod = ast.Module(body=fns, type_ignores=[])
    ast.fix_missing_locations(mod)
    code = compile(mod, path + ':<coroutines>', 'exec')
    return code, y.points, lock_names, sorted(selected)


def _co_dispatch(ns):
    """pretty_dispatch(value, ctx, ...) inside a coroutine: resolve the
    implementation through the real singledispatch (one atomic step) and run the
    _run_pretty wrapper as a coroutine, so that the visit bookkeeping of the
    top-level value interleaves; the printer itself is one atomic step."""
    import functools

    def dispatch(value, ctx, **kw):
        impl = PP.pretty_dispatch.dispatch(value.__class__)
        if isinstance(impl, functools.partial) and impl.func is PP._run_pretty and not impl.keywords:
            return (yield from ns['__co___run_pretty'](*impl.args, value, ctx, **kw))
        return impl(value, ctx, **kw)
        yield  # pragma: no cover (makes this a generator function)
    return dispatch


class Namespace(dict):
    """Globals of the coroutine functions: the real module globals underneath
    (shared state!), coroutine versions and cooperative locks on top."""

    def __init__(self, real, overlay):
        super().__init__(overlay)
        self.real = real

    def __missing__(self, key):
        return self.real[key]


# ---------------------------------------------------------------------------
# the scenarios: classes with lazily (by name) / directly registered printers

class LazyBase:
    def __init__(self, x):
        self.x = x

    def __repr__(self):
        return 'REPR_%s' % type(self).__name__


class LazyChild(LazyBase):
    pass


class LazyGrand(LazyChild):
    pass


class Direct:
    def __repr__(self):
        return 'REPR_Direct'


class Plain:
    def __repr__(self):
        return 'REPR_Plain'


def printer_base(value, ctx):
    return PP.pretty_call(ctx, type(value), value.x)


def printer_child(value, ctx):
    return PP.pretty_call(ctx, type(value), child=value.x)


def printer_direct(value, ctx):
    return 'DIRECT'


class PredA:
    def __repr__(self):
        return 'REPR_PredA'


class PredB:
    def __init__(self, x=0):
        self.x = x

    def __repr__(self):
        return 'REPR_PredB'


def is_pred_a(value):
    return isinstance(value, PredA)


def is_pred_b(value):
    return isinstance(value, PredB)


def printer_pred_a(value, ctx):
    return 'BY_PREDICATE_A'


def printer_pred_b(value, ctx):
    return PP.pretty_call(ctx, PredB, value.x)


SETUPS = {
    # deferred entry for the exact class of the printed values
    'exact': [('name', 'LazyBase', printer_base)],
    # deferred entry on a base class, values of a subclass (MRO walk)
    'base': [('name', 'LazyBase', printer_base)],
    # two deferred entries along the MRO
    'two-levels': [('name', 'LazyBase', printer_base), ('name', 'LazyChild', printer_child)],
    # directly registered base, deferred (newer) entry for the same base
    'direct-then-name': [('class', 'LazyBase', printer_direct), ('name', 'LazyBase', printer_base)],
    # printers registered with predicates (consulted, in registration order, for unregistered types)
    'predicates': [('pred', is_pred_a, printer_pred_a), ('pred', is_pred_b, printer_pred_b)],
}

THREAD_VALUES = {
    'exact': ['LazyBase(1)', 'LazyBase(2)', 'LazyBase(3)'],
    'base': ['LazyChild(1)', 'LazyGrand(2)', 'LazyChild(3)'],
    'two-levels': ['LazyGrand(1)', 'LazyChild(2)', 'LazyBase(3)'],
    'direct-then-name': ['LazyBase(1)', 'LazyChild(2)', 'Direct()'],
    'mixed': ['LazyBase(1)', 'Plain()', 'Direct()'],
    'containers': ['[LazyBase(1), 2]', "{'k': LazyChild(2)}", '(LazyBase(3),)'],
    'predicates': ['PredB(1)', 'PredB(2)', 'PredA()'],
}


def apply_setup(name):
    c15.reset()
    PP.register_pretty(Direct)(printer_direct)
    for kind, cls, fn in SETUPS.get(name, SETUPS['exact']):
        if kind == 'name':
            PP.register_pretty('vf.props.c20.' + cls)(fn)
        elif kind == 'pred':
            PP.register_pretty(predicate=cls)(fn)
        else:
            PP.register_pretty(globals()[cls])(fn)


def make_value(src):
    return eval(src, {'LazyBase': LazyBase, 'LazyChild': LazyChild, 'LazyGrand': LazyGrand,
                      'Direct': Direct, 'Plain': Plain, 'PredA': PredA, 'PredB': PredB})


class ScheduleCase(base.CaseBase):
    def __init__(self, params):
        super().__init__(params)
        c15.snapshot()
        self.setup = params['setup']
        self.nthreads = params.get('threads', 2)
        self.values = THREAD_VALUES[params.get('values', self.setup)][:self.nthreads]
        self.code, self.points, self.lock_names, self.selected = build_coroutines()
        self.maxstep = params.get('maxstep', 40)
        # sequential reference (fresh state, each order)
        self.expected = None
        with warnings.catch_warnings():
            warnings.simplefilter('ignore')
            import itertools
            for order in itertools.permutations(range(self.nthreads)):
                apply_setup(self.setup)
                texts = {}
                vals = self.make_values()
                for i in order:
                    texts[i] = PKG.pformat(vals[i])
                if self.expected is None:
                    self.expected = texts
                elif texts != self.expected:
                    raise RuntimeError('sequential orders disagree: %r vs %r' % (texts, self.expected))
            c15.reset()

    def make_values(self):
        vals = [make_value(v) for v in self.values]
        if self.params.get('same_object'):
            vals = [vals[0]] * len(vals)
        return vals

    def pre(self, cuts):
        first = self.params.get('first')
        for k, c in enumerate(cuts):
            if k == 0 and first is not None:
                if c != first:
                    return False
            elif k < self.ncuts():
                if not (0 <= c and c <= self.maxstep):
                    return False
                allowed = self.params.get('c3_values') if k == 2 else None
                if allowed is not None:
                    ok = False
                    for v in allowed:
                        if c == v:
                            ok = True
                    if not ok:
                        return False
            elif c != 0:
                return False
        return True

    def ncuts(self):
        return self.params.get('ncuts', 3)

    def run(self, cuts):
        # concretise the switch points
        conc = []
        for k in range(self.ncuts()):
            # binary concretisation (6 comparisons instead of up to 53)
            v = 0
            for bit in (32, 16, 8, 4, 2, 1):
                if cuts[k] >= v + bit:
                    v += bit
            conc.append(v)
        if self.native:
            return self.execute(conc)
        with NoTracing():
            return self.execute(conc)

    def execute(self, cuts):
        with warnings.catch_warnings():
            warnings.simplefilter('ignore')
            apply_setup(self.setup)
            try:
                return self.execute_inner(cuts)
            finally:
                c15.reset()

    def execute_inner(self, cuts):
        n = self.nthreads
        locks = {name: CoLock(name) for name in self.lock_names}
        values = self.make_values()
        threads = []
        for i in range(n):
            me = [None]
            overlay = dict(locks)
            overlay['__co_acquire'] = _co_acquire
            overlay['__co_release'] = _co_release
            overlay['__co_me'] = me
            ns = Namespace(PP.__dict__, overlay)
            exec(self.code, ns)
            overlay_dispatch = _co_dispatch(ns)
            ns['__co_dispatch'] = overlay_dispatch
            twins = {}
            for name in self.selected:
                real = PP.__dict__.get(name)
                if real is not None and name != 'register_pretty' and ('__co__' + name) in ns:
                    twins[id(real)] = (real, ns['__co__' + name])
            ns['__co_call'] = _co_call(twins)
            me[0] = ns           # identity of the thread
            value = values[i]
            gen = ns['__co__python_to_sdocs'](value, indent=4, width=79, depth=None, ribbon_width=71,
                                        max_seq_len=1000, sort_dict_keys=False)
            threads.append({'gen': gen, 'done': False, 'doc': None, 'exc': None, 'steps': 0,
                            'blocked': False, 'trace': []})

        def step(i):
            """one statement of thread i; returns False if it could not run"""
            t = threads[i]
            if t['done']:
                return False
            try:
                r = next(t['gen'])
                if isinstance(r, Blocked):
                    t['blocked'] = True
                    return False
                t['blocked'] = False
                t['steps'] += 1
                t['trace'].append(r)
            except StopIteration as s:
                t['done'] = True
                t['doc'] = s.value
            except Exception as e:
                t['done'] = True
                t['exc'] = e
            return True

        # segments: thread order A B A B ... with the given lengths, then
        # everything to completion round robin
        order = [k % n for k in range(len(cuts))]
        schedule = []
        for who, length in zip(order, cuts):
            for _ in range(length):
                if not step(who):
                    break
            schedule.append((who, length))
        guard = 0
        while not all(t['done'] for t in threads):
            progressed = False
            for i in range(n - 1, -1, -1):      # the thread that did not start last finishes first
                while not threads[i]['done']:
                    if not step(i):
                        break
                    progressed = True
            guard += 1
            if not progressed or guard > 1000:
                self.last_traces = [list(t['trace']) for t in threads]
                return self.fail('C20:deadlock', lambda: 'schedule=%r' % (schedule,))
        self.last_traces = [list(t['trace']) for t in threads]
        describe = lambda: 'setup=%s values=%r schedule (thread, statements)=%r\nstatement lines executed per thread=%r\nresults=%r\nsequential=%r' % (
            self.setup, self.values, schedule, [t['trace'] for t in threads],
            [(repr(t['exc']) if t['exc'] else texts.get(i)) for i, t in enumerate(threads)], self.expected)
        texts = {}
        for i, t in enumerate(threads):
            if t['exc'] is not None:
                exc = type(t['exc']).__name__
                return self.fail('C20:thread-raises-' + exc, describe)
        for i, t in enumerate(threads):
            # the rest of pformat (layout, rendering) is one atomic step per thread
            from prettyprinter.render import default_render_to_str
            try:
                texts[i] = default_render_to_str(t['doc'])
            except Exception as e:
                return self.fail('C20:thread-raises-' + type(e).__name__, describe)
        for i in range(n):
            if texts[i] != self.expected[i]:
                return self.fail('C20:text-differs-from-sequential-run', describe)
        # the shared state ends up as after a sequential run: a later print agrees
        for i in range(n):
            again = PKG.pformat(values[i])
            if again != self.expected[i]:
                return self.fail('C20:later-print-differs-from-sequential-run', describe)
        return True

    def run_native(self, a):
        """Replay: first the coroutine model (to obtain the per-thread
        statement traces of the schedule), then the *same schedule on real
        threads running the untransformed code*, enforced through
        sys.settrace line events.  Only what real threads reproduce is
        reported."""
        cuts = [a['c1'], a['c2'], a['c3'], a['c4']][:self.ncuts()]
        self.last_schedule = None
        ok = self.run(cuts + [0] * (4 - len(cuts)))
        if ok:
            return True
        model_fail = self.last_fail
        real = self.real_threads(cuts)
        if real is None:
            # the real interpreter did not reproduce the model's violation
            self.last_fail = None
            return True
        self.last_fail = (model_fail[0], model_fail[1] + '\n--- reproduced with real threads (sys.settrace scheduler): ' + real)
        return False

    def real_threads(self, cuts):
        """Run the schedule on real threads; returns a description of the
        failure or None if every thread returned the sequential text."""
        import sys
        import threading
        fname = os.path.join(REPO, 'prettyprinter', 'prettyprinter.py')
        targets = set(self.selected) | {'decorator'}
        n = self.nthreads
        with warnings.catch_warnings():
            warnings.simplefilter('ignore')
            apply_setup(self.setup)
        values = self.make_values()
        go = [threading.Semaphore(0) for _ in range(n)]      # controller -> thread: run one statement
        arrived = [threading.Semaphore(0) for _ in range(n)]  # thread -> controller: paused before a statement / finished
        results = [None] * n
        state = {'finished': [False] * n}

        expected_lines = [list(tr) for tr in getattr(self, 'last_traces', [[]] * n)]
        pointer = [0] * n

        active_run_pretty = [0] * n

        def make_tracer(i):
            traced = set()          # ids of the live frames that are being stepped

            def local_rp(frame, event, arg):
                if event == 'return':
                    active_run_pretty[i] -= 1
                    traced.discard(id(frame))
                    return local_rp
                return local(frame, event, arg) and local_rp

            def local(frame, event, arg):
                # pause exactly before the statements the model paused before:
                # the k-th pause of thread i is the line event whose line is
                # the k-th entry of the model's statement trace (continuation
                # lines of multi-line statements and re-visits are ignored)
                if event == 'line' and pointer[i] < len(expected_lines[i]) \
                        and frame.f_lineno == expected_lines[i][pointer[i]]:
                    pointer[i] += 1
                    arrived[i].release()
                    go[i].acquire()
                elif event == 'return':
                    traced.discard(id(frame))
                return local

            def tracer(frame, event, arg):
                co = frame.f_code
                if event == 'call' and co.co_filename == fname and co.co_name in targets:
                    # everything below the outermost _run_pretty (the printer and
                    # the values nested in it) is one atomic step in the model -
                    # except transformed functions called directly from a stepped
                    # frame (the printer handed to _run_pretty may be one of them)
                    if active_run_pretty[i] > 0:
                        if frame.f_back is not None and id(frame.f_back) in traced \
                                and co.co_name != '_run_pretty':
                            traced.add(id(frame))
                            return local
                        return None
                    traced.add(id(frame))
                    if co.co_name == '_run_pretty':
                        active_run_pretty[i] += 1
                        return local_rp
                    return local
                return None
            return tracer

        def body(i):
            sys.settrace(make_tracer(i))
            try:
                with warnings.catch_warnings():
                    warnings.simplefilter('ignore')
                    results[i] = ('ok', PKG.pformat(values[i]))
            except BaseException as e:       # noqa
                results[i] = ('exc', repr(e))
            finally:
                sys.settrace(None)
                state['finished'][i] = True
                arrived[i].release()

        ths = [threading.Thread(target=body, args=(i,), daemon=True) for i in range(n)]
        started = [False] * n
        paused = [False] * n

        def step(i):
            """let thread i execute one statement; False if it is finished or blocked"""
            if state['finished'][i]:
                return False
            if not started[i]:
                # the model's first step is the yield *before* the first
                # statement: start the thread and let it reach that point
                started[i] = True
                ths[i].start()
                if not arrived[i].acquire(timeout=5):
                    return False
                paused[i] = not state['finished'][i]
                return paused[i]
            if not paused[i]:
                return False
            go[i].release()
            paused[i] = False
            if not arrived[i].acquire(timeout=0.5):
                return False                  # blocked on a real lock: not runnable now
            paused[i] = not state['finished'][i]
            return True

        order = [k % n for k in range(len(cuts))]
        for who, length in zip(order, cuts):
            for _ in range(length):
                if not step(who):
                    break
        # everything to completion, last thread first (as in the model)
        for rounds in range(2000):
            if all(state['finished']):
                break
            for i in range(n - 1, -1, -1):
                while step(i):
                    pass
                # a thread that was blocked may have been released meanwhile
                if not state['finished'][i] and not paused[i] and started[i]:
                    if arrived[i].acquire(timeout=0.2):
                        paused[i] = not state['finished'][i]
        for t in ths:
            if t.is_alive():
                t.join(timeout=2)
        with warnings.catch_warnings():
            warnings.simplefilter('ignore')
            c15.reset()
        problems = []
        for i in range(n):
            r = results[i]
            if r is None:
                problems.append('thread %d did not finish' % i)
            elif r[0] == 'exc':
                problems.append('thread %d raised %s' % (i, r[1]))
            elif r[1] != self.expected[i]:
                problems.append('thread %d returned %r, sequentially %r' % (i, r[1], self.expected[i]))
        return '; '.join(problems) if problems else None

    def describe_bounds(self):
        return self.ncuts(), self.maxstep


def _pre(c1, c2, c3, c4):
    return CASE.pre([c1, c2, c3, c4])


def h_sched(c1: int, c2: int, c3: int, c4: int) -> bool:
    """
    pre: _pre(c1, c2, c3, c4)
    post: _
    """
    return CASE.run([c1, c2, c3, c4])


def h_sched_twin(c1: int, c2: int, c3: int, c4: int) -> bool:
    """
    pre: _pre(c1, c2, c3, c4)
    post: False
    """
    CASE.run([c1, c2, c3, c4])
    return True


FAMILIES = {'schedule': base.Family('schedule', h_sched, h_sched_twin, ScheduleCase, _install)}


def _families():
    from vf.props import c20l
    FAMILIES.setdefault('layout-schedule', c20l.FAMILY)
    return FAMILIES


def run_case(task):
    return base.generic_run_case(_families(), task)


def replay_case(task):
    return base.generic_replay_case(_families(), task)


THOROUGH_KEEP = {'*': 0.4}      # see vf/runner.py (time)


def cases(tier, seed):
    out = []
    first = True
    # a thread executes at most ~52 statements of the coroutine functions
    # (a cut beyond the end of a thread equals a cut at its end)
    M = 52
    C3_QUICK = [0, 1, 2, 3, 5, 8, 13, 21, 34, 52]
    C3_THOROUGH = sorted(set(list(range(0, 16)) + [18, 21, 25, 30, 34, 40, 46, 52]))
    setups = [('exact', None), ('base', None), ('two-levels', None), ('direct-then-name', None), ('exact', 'mixed'),
              ('exact', 'same-object'), ('exact', 'containers'), ('predicates', None)]
    for setup, values in setups:
        label = setup if values is None else setup + '+' + values
        if tier == 'quick' and setup == 'two-levels':
            continue
        step = 4 if tier == 'quick' else 1
        for c1 in range(0, M + 1, step):
            p = {'setup': setup, 'threads': 2, 'ncuts': 3, 'maxstep': M, 'first': c1,
                 'c3_values': C3_QUICK if tier == 'quick' else C3_THOROUGH}
            if values == 'same-object':
                p['same_object'] = True
            elif values:
                p['values'] = values
            out.append({'name': 'two-threads:%s:c1=%d' % (label, c1), 'family': 'schedule', 'params': p,
                        'budget': 120.0 if tier == 'quick' else 400.0, 'path_timeout': 60.0, 'twin': first})
            first = False
    for setup in (('base',) if tier == 'quick' else ('exact', 'base', 'direct-then-name')):
        for c1 in range(0, M + 1, 8 if tier == 'quick' else 2):
            out.append({'name': 'three-threads:%s:c1=%d' % (setup, c1), 'family': 'schedule',
                        'params': {'setup': setup, 'threads': 3, 'ncuts': 3, 'maxstep': M, 'first': c1,
                                   'c3_values': C3_QUICK},
                        'budget': 120.0 if tier == 'quick' else 400.0, 'path_timeout': 60.0})
    from vf.props import c20l
    out.extend(c20l.cases(tier, seed))
    return out


def evidence(tier, seed, tasks, results):
    code, points, locks, selected = build_coroutines()
    from vf.props import c20l
    lb = c20l.bounds(tier)
    return {
        'coverage': {
            'bounds': {
                **lb,
                'functions turned into coroutines (from the current source: the entry points plus every undecorated non-generator function that touches module-level mutable state or a lock, directly or through calls by name from the entry points)': selected + ['register_pretty.<locals>.decorator'],
                'yield points inserted': points,
                'locks modelled': locks,
                'schedules': 'two threads: A runs c1 statements, B c2, A c3, then both run to completion; c1 fixed per task (partition; quick: every 4th value of 0..52), c2 symbolic 0..52, c3 symbolic over a set of 10 (quick) / 24 (thorough) values; three threads: A c1, B c2, C c3, then completion',
                'scenarios_2': 'also: both threads print the very same object; containers holding lazily registered values; two printers registered with predicates and values of unregistered types the second predicate accepts',
                'scenarios': 'first print of a lazily (by name) registered type by both threads; lazily registered base class with subclass instances; two lazy levels; direct registration shadowed by a newer by-name one; lazily / directly / not registered types mixed',
            },
            'note': 'switch points are solver variables concretised by chains: each path is one schedule, executed on the real shared module state; a violation is a real schedule, absence of violations is claimed for statement-granularity interleavings of these functions only',
            'outside_the_claim': 'thread switches inside a statement, inside functools.singledispatch, inside the printers or the renderer; switches inside the layout are explored separately (layout-schedule family: two threads inside layout.py, everything before the layout atomic) and not combined with switches on the registration path; cpprint (global colorful palette); concurrent register_pretty calls',
        },
        'assumptions': ['a statement of the transformed functions executes atomically in the model; all other code of a pformat call is one atomic step',
                        'threading.Lock / RLock objects named in a module-level assignment are modelled by a cooperative re-entrant lock'],
    }
