"""C06 - whatever fits on one line is put on one line.

Part 1 (engine level) shares the machinery of vf/props/c05.py with the rule
switched: every group the matcher labels broken, and that contains no forced
break, needs one of the excuses of the statement, recomputed independently
(vf.refsem.flat_lookahead) and proved by z3 on every path.
"""
from vf import base, lemmas
from vf.props import c05


def _with_rule(task):
    t = dict(task)
    if t.get('family') == 'width':
        p = dict(t['params'])
        p['rule'] = 'C06'
        t['params'] = p
    return t


# ---- part 2: whatever fits on one line is printed on one line (pformat level)

from crosshair.tracers import NoTracing
from vf import pfbase, gen_values, stubs
from vf.pfbase import SLine


class OneLineAtoms(pfbase.AtomCase):
    """Skeleton with atoms of symbolic width; L = symbolic width of the
    one-line form; for every width >= L and ribbon_width >= L the output is
    that single line."""

    def run(self, texts, w, rw):
        if self.native:
            texts = ['pqrst'[k] + '_' * (len(t) - 1) for k, t in enumerate(texts)]
        self.bind(texts)
        ref = pfbase.sdocs(self.value, 10 ** 6, 10 ** 6, True, traced_printers=True)
        L = 0
        for x in ref:
            if isinstance(x, SLine):
                return True          # the printers force a break: excluded by the statement
            if isinstance(x, str):
                L = L + len(x)
        if not (w >= L and rw >= L):
            return True              # acts as a precondition (L is symbolic)
        out = pfbase.sdocs(self.value, w, rw, self.native, traced_printers=True)
        describe = lambda: 'skeleton=%s L=%r w=%r rw=%r\nstream=%r' % (self.src, L, w, rw, out)
        for x in out:
            if isinstance(x, SLine):
                return self.fail('C06:fits-on-one-line-but-broken', describe)
        with NoTracing():
            a = [x for x in out if type(x) is str or id(x) in [id(t) for t in texts]]
            b = [x for x in ref if type(x) is str or id(x) in [id(t) for t in texts]]
            if len(a) != len(b) or any(p is not q and p != q for p, q in zip(a, b)):
                return self.fail('C06:one-line-output-differs-from-unbounded-rendering', describe)
        return True


class OneLineValue(pfbase.CfgCase):
    """Concrete value; L = len(one-line form); every width and ribbon >= L
    (both symbolic, independent) gives exactly that line."""

    def __init__(self, params):
        super().__init__(params)
        self.src = params['value']
        self.value = gen_values.make_value(self.src)
        if params.get('ref') == 'repr':
            # containers of ints: the one-line form is repr(value), whatever the
            # package under test does at "unbounded" width
            self.ref = repr(self.value)
        else:
            self.ref = pfbase.native_pformat(self.value, 10 ** 6, 10 ** 6)
        self.L = len(self.ref)
        self.delta = params.get('delta', 0)

    def pre(self, w, rw):
        if '\n' in self.ref:
            return w == 1 and rw == 1
        return (self.L + self.delta <= w and w <= max(pfbase.MAXW, self.L + 2) and
                self.L + self.delta <= rw and rw <= max(pfbase.MAXW, self.L + 2))

    def run(self, w, rw):
        if '\n' in self.ref:
            return True
        if self.native:
            text = pfbase.native_pformat(self.value, w, rw)
        else:
            text = pfbase.ptext(self.value, w, rw)
        if text != self.ref:
            return self.fail('C06:fits-on-one-line-but-broken',
                             lambda: 'value=%s L=%d w=%r rw=%r\noutput:\n%s' % (self.src, self.L, w, rw, text))
        return True


class OneLineRelayout(pfbase.CfgCase):
    """The document of a value is built once (pretty_python_value) and laid out
    at a narrow width first; laying the same object out again at any width and
    ribbon >= L still gives the one line."""

    def __init__(self, params):
        super().__init__(params)
        from prettyprinter.layout import layout_smart, layout_fast
        from prettyprinter.render import default_render_to_str
        self.src = params['value']
        self.value = gen_values.make_value(self.src)
        self.ref = pfbase.native_pformat(self.value, 10 ** 6, 10 ** 6)
        self.L = len(self.ref)
        self.layout = layout_smart if params.get('smart', True) else layout_fast
        self.render = default_render_to_str
        self.narrow = params.get('narrow', 12)

    def pre(self, w, rw):
        if '\n' in self.ref:
            return w == 1 and rw == 1
        return self.L <= w and w <= max(pfbase.MAXW, self.L + 2) and rw == w

    def make_doc(self):
        PP = pfbase.PP
        return PP.pretty_python_value(self.value, ctx=PP.PrettyContext(
            indent=4, depth_left=float('inf'), visited=set(), max_seq_len=1000,
            sort_dict_keys=False))

    def run(self, w, rw):
        if '\n' in self.ref:
            return True
        with NoTracing():
            doc = self.make_doc()
            list(self.layout(doc, width=self.narrow, ribbon_frac=1.0))
        frac = 1.0 if self.native else stubs.Frac(w, w)
        out = list(self.layout(doc, width=w, ribbon_frac=frac))
        with NoTracing():
            text = self.render(out)
        if text != self.ref:
            return self.fail('C06:fits-on-one-line-but-broken',
                             lambda: 'value=%s L=%d: the same document object laid out at width %d first, '
                                     'then at w=%r (ribbon_frac 1.0)\noutput:\n%s' % (
                                         self.src, self.L, self.narrow, w, text))
        return True


FAMILIES = dict(c05.FAMILIES)
FAMILIES['oneline-relayout'] = pfbase.cfg_family('oneline-relayout', OneLineRelayout)
FAMILIES['oneline'] = pfbase.atoms_family('oneline', OneLineAtoms)
FAMILIES['oneline-value'] = pfbase.cfg_family('oneline-value', OneLineValue)


def run_case(task):
    return base.generic_run_case(FAMILIES, _with_rule(task))


def replay_case(task):
    return base.generic_replay_case(FAMILIES, _with_rule(task))


def lemma_task(task):
    return c05.lemma_task(task, rule='C06')


def cases(tier, seed):
    out = lemmas.lemma_tasks(tier, 'c06')
    for c in c05.shape_cases(tier, seed, 'C06') + c05.frac_cases(tier, seed, 'C06'):
        c = dict(c)
        c['params'] = dict(c['params'], rule='C06')
        out.append(c)
    # part 2
    sk = gen_values.ATOM_SKELETONS
    for j, s in enumerate(sk if tier == 'thorough' else sk[:8]):
        out.append({'name': 'oneline:%s' % s, 'family': 'oneline',
                    'params': {'skeleton': s, 'slice': 'mixed'},
                    'budget': 100.0 if tier == 'quick' else 400.0, 'path_timeout': 30.0, 'twin': j == 0})
    corpus = [c for c in gen_values.corpus('quick', seed) if len(c[1]) < 70]
    step = 2 if tier == 'quick' else 1
    for name, src in corpus[::step]:
        out.append({'name': 'oneline-value:%s' % name, 'family': 'oneline-value',
                    'params': {'value': src}, 'budget': 60.0})
    # the same document object laid out twice
    rel = ["'hello brave new world'", "['lorem ipsum dolor', 'sit amet']",
           "{'key': 'some words in a value'}", "('alpha beta gamma delta', 1)",
           "[b'bytes with some words', 2]", "{'a': [1, 2, 3], 'b': (4, 5)}"]
    for j, src in enumerate(rel if tier != 'quick' else rel[:5]):
        for smart in (True, False):
            out.append({'name': 'oneline-relayout:%s:%s' % ('smart' if smart else 'fast', src),
                        'family': 'oneline-relayout', 'params': {'value': src, 'smart': smart},
                        'budget': 60.0, 'twin': j == 0 and smart})
    # long one-line values: the lookahead of the outermost group walks the
    # whole value (hundreds to thousands of documents)
    for rows in ((3,) if tier == 'quick' else (2, 5, 8)):
        out.append({'name': 'oneline-big:%drows' % rows, 'family': 'oneline-value',
                    'params': {'value': '[[0, 1, 2, 3, 4, 5, 6, 7, 8, 9] * 5] * %d' % rows,
                               'ref': 'repr'},
                    'budget': 60.0 * rows, 'path_timeout': 60.0 * rows})
    if tier != 'quick':
        out.append({'name': 'oneline-big:dict', 'family': 'oneline-value',
                    'params': {'value': "{'rows': [(0, 1, 2, 3, 4, 5, 6, 7, 8, 9) * 5] * 4}",
                               'ref': 'repr'},
                    'budget': 300.0, 'path_timeout': 300.0})
    return out


def evidence(tier, seed, tasks, results):
    ev = c05.evidence(tier, seed, tasks, results)
    ev['coverage']['bounds']['excuses recomputed'] = (
        'flat width of the group + rest of the line with following groups flat vs '
        'min(width - column, indent + ribbon - column); always_break in the lookahead; '
        'smart: a following deeper line exceeding the page width (align / hang '
        'resolved at the exact output column)')
    return ev
