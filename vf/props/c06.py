"""C06 - whatever fits on one line is put on one line.

Part 1 (engine level) shares the machinery of vf/props/c05.py with the rule
switched: every group the matcher labels broken, and that contains no forced
break, needs one of the excuses of the statement, recomputed independently
(vf.refsem.flat_lookahead) and proved by z3 on every path.
"""
from vf import base, lemmas
from vf.props import c05


def _with_rule(task):
    t = dict(task)
    if t.get('family') == 'width':
        p = dict(t['params'])
        p['rule'] = 'C06'
        t['params'] = p
    return t


def run_case(task):
    return base.generic_run_case(c05.FAMILIES, _with_rule(task))


def replay_case(task):
    return base.generic_replay_case(c05.FAMILIES, _with_rule(task))


def lemma_task(task):
    return c05.lemma_task(task, rule='C06')


def cases(tier, seed):
    out = lemmas.lemma_tasks(tier, 'c06')
    for c in c05.shape_cases(tier, seed, 'C06'):
        c = dict(c)
        c['params'] = dict(c['params'], rule='C06')
        out.append(c)
    return out


def evidence(tier, seed, tasks, results):
    ev = c05.evidence(tier, seed, tasks, results)
    ev['coverage']['bounds']['excuses recomputed'] = (
        'flat width of the group + rest of the line with following groups flat vs '
        'min(width - column, indent + ribbon - column); always_break in the lookahead; '
        'smart: a following deeper line exceeding the page width; lookahead through '
        'align/hang is not modelled (excuse granted)')
    return ev
