"""C19 - output depends only on the value and the settings; inputs are never modified.

Symbolic: the indices (into a fixed corpus) of up to three values printed
before the observed call and the index of the observed value - the solver
enumerates the histories; page width for a 2-value sub-corpus.
Baselines: every corpus value printed *first in a fresh interpreter* (native
subprocesses started by the check before the symbolic runs).
Module state is reset from an import-time snapshot at the start of every path.
"""
import json
import os
import subprocess
import sys
import warnings

from crosshair.tracers import NoTracing

import prettyprinter as PKG
from vf import base, pfbase
from vf.pfbase import PP
from vf.props import c15

CASE = None
ACTION_R = -1
ACTION_F = -2
ACTION_B = -3
HERE = os.path.dirname(os.path.dirname(os.path.dirname(os.path.abspath(__file__))))


def _install(case):
    global CASE
    CASE = case


# (source, pformat keyword arguments)
CORPUS = [
    ("uuid.UUID('12345678-1234-5678-1234-567812345678')", {}),
    ('[vf.stdvals.Shade.DARK, vf.subcls.Color.RED]', {}),
    ('functools.partial(vf.stdvals.fn, 1, k=[2, 3])', {}),
    ('time.gmtime(0)', {}),
    ("{'k': 'a long string value that has to be split over several lines when the width is small', 'b': [1, 2]}", {'width': 40}),
    ("[comment(1, 'a note'), trailing_comment([2, 3], 'more')]", {}),
    ('vf.props.c02.Box([1, 2], tag={3: 4})', {}),
    ("[collections.Counter('aab'), collections.OrderedDict([(1, [2])]), collections.defaultdict(list, {1: [2]}), collections.deque([1, [2]], maxlen=5), collections.ChainMap({1: [2]}, {})]", {}),
    ("{2: 'b', 1: 'a', 3: {'z': 1, 'y': 2}}", {'sort_dict_keys': True}),
    ("pathlib.PurePosixPath('usr/local/lib')", {}),
    ("types.MappingProxyType({'a': [1, 2]})", {}),
    ('[vf.subcls.PlainList([1, 2]), vf.subcls.ReprStr("x"), vf.dcls.Plain(1, "y", [2])]', {}),
    ("datetime.datetime(2020, 1, 2, 3, 4, tzinfo=datetime.timezone(datetime.timedelta(hours=1)))", {}),
    ("[[1, 2, 3], ('a', 'b'), {1, 2}, frozenset([3]), {'k': None}]", {'width': 20}),
    # a struct sequence whose repr cannot be parsed (field names unresolvable)
    ('time.struct_time((vf.stdvals.BAD,) * 9)', {}),
    # an instance of a class whose *base* class may get a printer by name (action R)
    ("vf.props.c19.RecChild(user='alice', action='login')", {}),
    ("[vf.props.c19.RecBase(x=1)]", {}),
    # values that are equal and hash alike but must print differently
    ("[-0.0, 1, 'x', (1,)]", {}),
    ("[0.0, True, 'x', (1.0,)]", {}),
    ("[1.0, 0, b'x', (True,)]", {}),
    # the tzinfo of a localized pytz datetime (a non-canonical DstTzInfo) - possibly the first pytz value printed
    ("pytz.timezone('Europe/Helsinki').localize(datetime.datetime(2020, 7, 1, 12))", {}),
    ("[pytz.utc, pytz.timezone('US/Eastern'), pytz.FixedOffset(60)]", {}),
    # values handled by printers that action B makes fail once on another value
    ("[types.SimpleNamespace(a=1, b=[2]), collections.Counter('abracadabra')]", {}),
    # a ChainMap whose first layer creates missing keys on lookup
    ("collections.ChainMap(collections.defaultdict(int, {'a': 5}), {'a': 1, 'b': 2, 'c': 3})", {}),
    ("[collections.defaultdict(list, {'k': [1]}), collections.Counter({'x': 2})]", {}),
    # comments: a text with whitespace-only lines (from an indented triple-quoted string), and one that has to be wrapped
    ("trailing_comment([1, 2], '\\n    and more\\n    ')", {}),
    ("comment([1, 2, 3], 'a rather long comment text that has to be wrapped over several lines when it is printed')", {'width': 40}),
    # an OrderedDict whose insertion order is not its sorted order, printed with sorting on / off
    ("collections.OrderedDict([('b', 1), ('a', [2]), ('c', 3)])", {'sort_dict_keys': True}),
    ("[collections.OrderedDict([('b', 1), ('a', [2]), ('c', 3)])]", {}),
    # a value whose nested element can be made to fail (action F prints it with the failure armed)
    ("{'k': [vf.props.c19.FLAKY, 1], 'other': (2, [3])}", {}),
]


class Flaky:
    armed = False

    def __repr__(self):
        if Flaky.armed:
            raise RuntimeError('repr of a nested element fails')
        return 'FLAKY_ELEMENT'


FLAKY = Flaky()
FLAKY_INDEX = len(CORPUS) - 1


def action_bad_values(ns):
    """Action B of a history: legal values on which bundled printers fail
    internally (repr fallback + warning) are printed."""
    import types
    import collections
    bad = types.SimpleNamespace(a=1)
    bad.__dict__[2] = 3                     # sorted() of mixed keys fails inside the printer
    with warnings.catch_warnings():
        warnings.simplefilter('ignore')
        PKG.pformat(bad)
        PKG.pformat([collections.Counter({'a': 1, 'b': 'many'}), bad])


def action_fail(ns):
    """Action F of a history: a print that is aborted by an exception in the
    middle of the traversal (the repr of a nested element raises)."""
    v = eval(CORPUS[FLAKY_INDEX][0], dict(ns))
    Flaky.armed = True
    try:
        try:
            PKG.pformat(v)
        except RuntimeError:
            pass
    finally:
        Flaky.armed = False
    return v



class RecBase(dict):
    pass


class RecChild(RecBase):
    pass


def action_register():
    """Action R of a history: a printer is registered *by name* for RecBase
    (what install_extras and plug-ins do) - possibly after values of the class
    or of its subclass have already been printed."""
    @PP.register_pretty('vf.props.c19.RecBase')
    def pretty_recbase(value, ctx):
        return PP.pretty_call_alt(ctx, type(value), kwargs=sorted(value.items()))


def corpus_ns():
    from vf.props.c07 import stdlib_ns
    from vf.props.c02 import register_box
    from vf import dcls
    import vf.props.c02
    register_box()
    dcls.install()
    ns = stdlib_ns()
    ns['comment'] = PKG.comment
    ns['trailing_comment'] = PKG.trailing_comment
    return ns


def fresh_baselines():
    """Each corpus value printed first in a fresh interpreter."""
    code = (
        "import sys, json, warnings\n"
        "sys.path.insert(0, %r)\n"
        "warnings.simplefilter('ignore')\n"
        "from vf.props import c19\n"
        "import prettyprinter\n"
        "i = int(sys.argv[1])\n"
        "if sys.argv[2] == 'R': c19.action_register()\n"
        "src, kw = c19.CORPUS[i]\n"
        "v = eval(src, c19.corpus_ns())\n"
        "print(json.dumps(prettyprinter.pformat(v, **kw)))\n" % HERE)
    out = {'': [], 'R': []}
    procs = []
    for flag in ('', 'R'):
        for i in range(len(CORPUS)):
            procs.append((flag, i, subprocess.Popen(
                [sys.executable, '-c', code, str(i), flag or '-'], stdout=subprocess.PIPE,
                stderr=subprocess.PIPE, text=True, env=dict(os.environ, PYTHONHASHSEED='0'))))
    for flag, i, p in procs:
        so, se = p.communicate(timeout=300)
        if p.returncode != 0:
            raise RuntimeError('baseline %d%s failed: %s' % (i, flag, se[-800:]))
        out[flag].append(json.loads(so.strip().split('\n')[-1]))
    return out


def snapshot(v, seen=None):
    """Canonical deep snapshot: types, identities of containers, contents, order."""
    if seen is None:
        seen = {}
    if id(v) in seen:
        return ('ref', seen[id(v)])
    if isinstance(v, (int, float, str, bytes, bool, type(None), complex)):
        return (type(v).__name__, repr(v))
    seen[id(v)] = len(seen)
    t = type(v).__qualname__
    if isinstance(v, dict):
        extra = getattr(v, 'default_factory', None)
        return (t, id(v), [(snapshot(k, seen), snapshot(x, seen)) for k, x in v.items()], repr(extra))
    if isinstance(v, (list, tuple)):
        return (t, id(v), [snapshot(x, seen) for x in v])
    if isinstance(v, (set, frozenset)):
        return (t, id(v), sorted(repr(snapshot(x, seen)) for x in v))
    import collections
    if isinstance(v, collections.deque):
        return (t, id(v), [snapshot(x, seen) for x in v], v.maxlen)
    if isinstance(v, collections.ChainMap):
        return (t, id(v), [snapshot(m, seen) for m in v.maps])
    d = getattr(v, '__dict__', None)
    if isinstance(d, dict):
        return (t, id(v), [(k, snapshot(x, seen)) for k, x in sorted(d.items(), key=lambda kv: kv[0])])
    if hasattr(v, 'value') and hasattr(v, 'comment'):
        return (t, id(v), snapshot(v.value, seen), v.comment)
    return (t, id(v), repr(v))


_extra_snap = {}


def reset_all():
    c15.snapshot()
    c15.reset()
    PP._cnamedtuple_fieldnames_by_class.clear()
    PKG._default_config = dict(_extra_snap.setdefault('config', dict(PKG._default_config)))


class HistoryCase(base.CaseBase):
    def __init__(self, params):
        super().__init__(params)
        self.baselines = params['baselines']
        # the last "index" of the full alphabet is the registration action R
        self.indices = params.get('indices') or (list(range(len(CORPUS))) + [ACTION_B, ACTION_F, ACTION_R])
        self.k = params['k']
        self.first = params.get('first')
        self.slice = params.get('slice', 'default')
        self.traced = params.get('traced', False)
        self.ns = corpus_ns()
        _extra_snap.setdefault('config', dict(PKG._default_config))
        c15.snapshot()

    def pre(self, hist, target, w, rw):
        n = len(self.indices)
        ntargets = n - 3 if self.indices[-1] == ACTION_R else n     # the actions are never a target
        if not (0 <= target and target < ntargets):
            return False
        for j, h in enumerate(hist):
            if j < self.k:
                if j == 0 and self.first is not None:
                    if h != self.first:
                        return False
                elif not (0 <= h and h < n):
                    return False
            elif h != 0:
                return False
        return pfbase.slice_pre(self.slice, w, rw)

    def concretise(self, x):
        for q in range(len(self.indices)):
            if x == q:
                return self.indices[q]
        return self.indices[0]

    def run(self, hist, target, w, rw):
        hs = [self.concretise(hist[j]) for j in range(self.k)]
        t = self.concretise(target)
        if self.traced or self.native:
            return self.execute(hs, t, w, rw)
        with NoTracing():
            return self.execute(hs, t, 79, 71)

    def execute(self, hs, t, w, rw):
        reset_all()
        describe = lambda: 'history=%r (index -1 = register a printer by name for RecBase, -2 = a print aborted by an exception, -3 = prints of values on which bundled printers fail) target=%r (%s)' % (
            hs, t, CORPUS[t][0][:60])
        try:
            with warnings.catch_warnings():
                warnings.simplefilter('ignore')
                values = {}
                snaps = {}
                for i in set(x for x in hs + [t] if x >= 0):
                    # values are built untraced (the tracer would substitute
                    # its own datetime / container proxies)
                    with NoTracing():
                        values[i] = eval(CORPUS[i][0], dict(self.ns))
                        snaps[i] = snapshot(values[i])
                registered = False
                for i in hs:
                    if i == ACTION_R:
                        action_register()
                        registered = True
                        continue
                    if i == ACTION_B:
                        with NoTracing():
                            action_bad_values(self.ns)
                        continue
                    if i == ACTION_F:
                        # the aborted print uses the very object a later target may print again
                        with NoTracing():
                            fv = action_fail(self.ns)
                        values[FLAKY_INDEX] = fv
                        snaps[FLAKY_INDEX] = snapshot(fv)
                        continue
                    kw = dict(CORPUS[i][1])
                    if self.traced and not self.native:
                        pfbase.stream_text(pfbase.sdocs(values[i], kw.get('width', 79), kw.get('width', 71),
                                                        False, sort_dict_keys=kw.get('sort_dict_keys', False),
                                                        traced_printers=True))
                    else:
                        PKG.pformat(values[i], **kw)
                kw = dict(CORPUS[t][1])
                if self.slice == 'default':
                    if self.traced and not self.native:
                        got = None
                        PKG.pformat(values[t], **kw)
                        with NoTracing():
                            got = PKG.pformat(values[t], **kw)
                    else:
                        got = PKG.pformat(values[t], **kw)
                    want = self.baselines['R' if registered else ''][t]
                else:
                    # symbolic width: compare with the same call in reset state
                    kw.pop('width', None)
                    if self.native:
                        got = PKG.pformat(values[t], width=w, ribbon_width=rw, **kw)
                        reset_all()
                        if registered:
                            action_register()
                        want = PKG.pformat(eval(CORPUS[t][0], dict(self.ns)), width=w, ribbon_width=rw, **kw)
                    else:
                        got = pfbase.stream_text(pfbase.sdocs(values[t], w, rw, False, traced_printers=True, **kw))
                        reset_all()
                        if registered:
                            action_register()
                        with NoTracing():
                            again = eval(CORPUS[t][0], dict(self.ns))
                        want = pfbase.stream_text(pfbase.sdocs(again, w, rw, False,
                                                               traced_printers=True, **kw))
        except Exception as e:
            exc = type(e).__name__
            return self.fail('C19:pformat-raises-' + exc, lambda: describe() + '\n' + repr(e))
        finally:
            reset_all()
        if got != want:
            return self.fail('C19:output-depends-on-history',
                             lambda: describe() + '\ngot:\n%s\nfresh interpreter:\n%s' % (got, want))
        with NoTracing():
            for i in set(x for x in hs + [t] if x >= 0):
                if snapshot(values[i]) != snaps[i]:
                    return self.fail('C19:input-mutated',
                                     lambda: describe() + '\nvalue %d: %r\nbefore: %r' % (i, snapshot(values[i]), snaps[i]))
        return True

    def run_native(self, a):
        return self.run([a['h1'], a['h2'], a['h3']], a['t'], a['w'], a['rw'])


def _pre(hist, target, w, rw):
    return CASE.pre(hist, target, w, rw)


def h_hist(h1: int, h2: int, h3: int, t: int, w: int, rw: int) -> bool:
    """
    pre: _pre([h1, h2, h3], t, w, rw)
    post: _
    """
    return CASE.run([h1, h2, h3], t, w, rw)


def h_hist_twin(h1: int, h2: int, h3: int, t: int, w: int, rw: int) -> bool:
    """
    pre: _pre([h1, h2, h3], t, w, rw)
    post: False
    """
    CASE.run([h1, h2, h3], t, w, rw)
    return True


FAMILIES = {'history': base.Family('history', h_hist, h_hist_twin, HistoryCase, _install)}


def run_case(task):
    return base.generic_run_case(FAMILIES, task)


def replay_case(task):
    return base.generic_replay_case(FAMILIES, task)


THOROUGH_KEEP = {'*': 1.0}      # see vf/runner.py (time: about 10 minutes per thorough tier)


def cases(tier, seed):
    baselines = fresh_baselines()
    n = len(CORPUS) + 3          # + the three actions
    out = []
    out.append({'name': 'k0:all-targets', 'family': 'history',
                'params': {'k': 0, 'baselines': baselines, 'traced': True}, 'budget': 200.0, 'twin': True})
    out.append({'name': 'k1:all', 'family': 'history',
                'params': {'k': 1, 'baselines': baselines}, 'budget': 300.0})
    for f in range(n):
        out.append({'name': 'k2:first=%d' % f, 'family': 'history',
                    'params': {'k': 2, 'baselines': baselines, 'first': f},
                    'budget': 300.0 if tier == 'quick' else 600.0})
    if tier == 'thorough':
        # three prints before the target: prints and target range over every
        # other corpus value plus the three actions (time)
        sub3 = list(range(0, len(CORPUS), 2)) + [ACTION_B, ACTION_F, ACTION_R]
        for f in range(len(sub3)):
            out.append({'name': 'k3:first=%d' % sub3[f], 'family': 'history',
                        'params': {'k': 3, 'baselines': baselines, 'first': f, 'indices': sub3},
                        'budget': 1200.0, 'path_timeout': 60.0})
    # symbolic width on a small sub-corpus, traced
    sub = [13, 8] if tier == 'quick' else [4, 13, 3, 8]
    out.append({'name': 'k1:sub-corpus|page', 'family': 'history',
                'params': {'k': 1, 'baselines': baselines, 'indices': sub, 'slice': 'page', 'traced': True},
                'budget': 90.0 if tier == 'quick' else 1500.0, 'path_timeout': 60.0})
    return out


def evidence(tier, seed, tasks, results):
    return {
        'coverage': {
            'bounds': {
                'history': 'every sequence of up to 2 prints (indices symbolic) before every target, over a corpus of %d values%s' % (
                    len(CORPUS), '' if tier == 'quick' else '; sequences of 3 prints: prints and target over every other corpus value plus the three actions'),
                'baseline': 'each value printed first in a fresh interpreter (subprocess) in this run',
                'width': 'the value\'s own settings; 1..200 symbolic on a sub-corpus compared with the same call in reset state',
                'mutation': 'canonical deep snapshot (types, container identities, contents, order) of every printed input before/after',
            },
            'note': 'indices are solver variables concretised by explicit chains (each path is one history); the prints of a history run untraced once concrete, except in the traced cases',
            'outside_the_claim': 'longer histories; values outside the corpus; sort_dict_keys with mutually incomparable keys (ordered by id() of temporaries, see DESIGN.md)',
        },
        'assumptions': ['module state reset = registries, deferred registry, predicate list, struct-sequence cache, default config restored from the import-time snapshot',
                        'PYTHONHASHSEED=0 in baselines and checks (set iteration order)'],
    }
