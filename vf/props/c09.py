"""C09 - comments are inert and preserved.

Symbolic: page width / ribbon width (slices).  Enumerated: value trees,
placements of comment()/trailing_comment() on their nodes, comment texts.
"""
import copy
import random
import warnings

from crosshair.tracers import NoTracing

from vf import base, pfbase, trees
from vf.trees import L

TEXTS = [
    'one',
    'several words here',
    'a\nb',
    'a\n\nb',
    '  leading blanks',
    'trailing blanks  ',
    '# x',
    'it\'s "quoted"',
    '[(,)]{:}',
    'A longer sentence of a comment that will not fit on one line',
    '\ttab\tseparated',
    'x',
    'd\xe9j\xe0 vu 中文',
    'ends with newline\n',
    '\nstarts with newline',
    'back\\slash and , comma',
    'first\n   \nthird after whitespace-only line',
    'note\n\n',
    '\n\n',
    'a\n \n',
    'two lines\n    indented continuation',
    # other line boundaries str.splitlines knows
    'carriage\rreturn then words',
    'crlf\r\nsecond line',
    'form\x0cfeed and\x0bvertical tab',
    'next\x85line and\u2028separator end',
]

BASE_TREES = [
    ('int', L('1')),
    ('list2', ['list', [L('1'), L("'a'")]]),
    ('tuple1', ['tuple', [L('1')]]),
    ('tuple2', ['tuple', [L('1'), L('2')]]),
    ('set1', ['set', [L('1')]]),
    ('fset1', ['frozenset', [L('1')]]),
    ('dict1', ['dict', [[L("'k'"), L('1')]]]),
    ('dict2', ['dict', [[L("'k'"), L('1')], [L('2'), ['list', [L('3')]]]]]),
    ('dict3', ['dict', [[L('1'), L('2')], [L('3'), L('4')], [L('5'), L('6')]]]),
    ('nested', ['list', [['tuple', [L('1'), L('2')]], ['dict', [[L('1'), L('2')]]]]]),
    ('call', ['box', [L('1')], [['tag', L('2')]]]),
    ('call-hug', ['box', [['list', [L('1'), L('2')]]]]),
    ('call-str', ['box', [L("'some text'")]]),
    ('empty-list', ['list', []]),
    ('empty-dict', ['dict', []]),
    ('list-of-empty', ['list', [['tuple', []], ['set', []]]]),
    ('strs', ['list', [L("'alpha beta'"), L("b'gamma'")]]),
    ('deep', ['list', [['list', [['list', [L('1')]]]]]]),
]

TC_KINDS = ('list', 'tuple', 'set', 'dict')


def node_paths(spec, prefix=()):
    """Paths to every node (a path is a tuple of child selectors)."""
    out = [prefix]
    kind = spec[0]
    if kind in ('list', 'tuple', 'set', 'frozenset'):
        for i, c in enumerate(spec[1]):
            out += node_paths(c, prefix + (('seq', i),))
    elif kind == 'dict':
        for i, (k, v) in enumerate(spec[1]):
            out += node_paths(k, prefix + (('key', i),))
            out += node_paths(v, prefix + (('val', i),))
    elif kind == 'box':
        for i, c in enumerate(spec[1]):
            out += node_paths(c, prefix + (('arg', i),))
        for i, (n, c) in enumerate(spec[2] if len(spec) > 2 else []):
            out += node_paths(c, prefix + (('kw', i),))
    return out


def get_node(spec, path):
    for sel, i in path:
        if sel == 'seq' or sel == 'arg':
            spec = spec[1][i]
        elif sel == 'key':
            spec = spec[1][i][0]
        elif sel == 'val':
            spec = spec[1][i][1]
        elif sel == 'kw':
            spec = spec[2][i][1]
    return spec


def wrap_at(spec, path, how, text):
    spec = copy.deepcopy(spec)
    if not path:
        return [how, text, spec]
    parent = get_node(spec, path[:-1])
    sel, i = path[-1]
    node = get_node(spec, path)
    wrapped = [how, text, node]
    if sel in ('seq', 'arg'):
        parent[1][i] = wrapped
    elif sel == 'key':
        parent[1][i][0] = wrapped
    elif sel == 'val':
        parent[1][i][1] = wrapped
    elif sel == 'kw':
        parent[2][i][1] = wrapped
    return spec


def comment_words(comments):
    words = []
    for c in comments:
        body = c.lstrip('#')
        words.extend(body.split())
    return words


class CommentCase(pfbase.CfgCase):
    def __init__(self, params):
        super().__init__(params)
        self.spec = params['spec']
        self.value = trees.build(self.spec, True)
        self.plain = trees.build(self.spec, False)
        self.comments = trees.comments_of(self.spec)
        self.indent = params.get('indent', 4)
        self.tc_on_empty_seq = set()
        self._scan_tc(self.spec)
        with warnings.catch_warnings():
            warnings.simplefilter('ignore')
            self.ref_dump = pfbase.ast_dump(pfbase.native_pformat(self.plain, 10 ** 6, 10 ** 6))

    def run(self, w, rw):
        with warnings.catch_warnings(record=True) as wlist:
            warnings.simplefilter('always')
            try:
                if self.native:
                    text = pfbase.native_pformat(self.value, w, rw, indent=self.indent)
                else:
                    text = pfbase.ptext(self.value, w, rw, indent=self.indent)
            except Exception as e:
                exc = type(e).__name__
                return self.fail(self.exc_key('C09:pformat-raises-' + exc),
                                 lambda: '%s: %s\nvalue=%s' % (exc, e, trees.show(self.spec)))
        with NoTracing():
            return self.judge(text, w, rw, wlist)

    def _scan_tc(self, spec):
        """texts of trailing comments attached to an empty list/tuple/set"""
        kind = spec[0]
        if kind in ('c', 'tc'):
            inner = spec[2]
            while inner[0] in ('c', 'tc'):
                inner = inner[2]
            if kind == 'tc' and inner[0] in ('list', 'tuple', 'set') and not inner[1]:
                self.tc_on_empty_seq.add(spec[1])
            self._scan_tc(spec[2])
        elif kind in ('list', 'tuple', 'set', 'frozenset'):
            for c in spec[1]:
                self._scan_tc(c)
        elif kind == 'dict':
            for k, v in spec[1]:
                self._scan_tc(k)
                self._scan_tc(v)
        elif kind == 'box':
            for c in spec[1]:
                self._scan_tc(c)
            for n, c in (spec[2] if len(spec) > 2 else []):
                self._scan_tc(c)

    def has_blank_line_comment(self):
        return any(any(line.strip() == '' for line in t.splitlines()) for _, t in self.comments)

    def exc_key(self, default):
        return default

    def judge(self, text, w, rw, wlist):
        describe = lambda: 'value=%s comments=%r w=%r rw=%r\noutput:\n%s' % (
            trees.show(self.spec), self.comments, w, rw, text)
        if any(issubclass(x.category, UserWarning) for x in wlist):
            return self.fail('C09:degrades-to-repr-or-warns', lambda: describe() + '\nwarnings: %s' % (
                [str(x.message)[:300] for x in wlist]))
        try:
            dump = pfbase.ast_dump(text)
        except SyntaxError:
            return self.fail('C09:output-not-an-expression', describe)
        if dump != self.ref_dump:
            return self.fail('C09:syntax-tree-changed', describe)
        try:
            code, comments = pfbase.split_tokens(text)
        except Exception:
            return self.fail('C09:output-does-not-tokenize', describe)
        stream = comment_words(comments)
        for how, t in self.comments:
            want = t.split()
            if not want:
                continue
            found = False
            for i in range(0, len(stream) - len(want) + 1):
                if stream[i:i + len(want)] == want:
                    found = True
                    break
            if not found:
                if how == 'tc':
                    if t in self.tc_on_empty_seq:
                        return self.fail('C09:trailing-comment-on-empty-sequence-dropped', describe)
                    return self.fail('C09:trailing-comment-words-missing', describe)
                return self.fail('C09:comment-words-missing', describe)
        return True


FAMILIES = {'comment': pfbase.cfg_family('comment', CommentCase)}


def run_case(task):
    return base.generic_run_case(FAMILIES, task)


def replay_case(task):
    return base.generic_replay_case(FAMILIES, task)


def placements(tier, seed):
    rnd = random.Random(seed * 31 + 9)
    out = []
    ti = 0
    for name, tree in BASE_TREES:
        paths = node_paths(tree)
        singles = []
        for p in paths:
            node = get_node(tree, p)
            singles.append((p, 'c'))
            if node[0] in TC_KINDS:
                singles.append((p, 'tc'))
        for p, how in singles:
            ntexts = 2 if tier == 'quick' else 6
            used = []
            for j in range(ntexts):
                t = TEXTS[ti % len(TEXTS)]
                ti += 1
                used.append(t)
                out.append(('%s@%s:%s:%r' % (name, '/'.join('%s%d' % x for x in p) or 'root', how, t[:18]),
                            wrap_at(tree, p, how, t)))
            # every placement also with a short one-line text (so that the enclosing
            # container still fits on one line: the comment alone must force the break)
            if not any(len(t) <= 4 and '\n' not in t for t in used):
                out.append(('%s@%s:%s:%r' % (name, '/'.join('%s%d' % x for x in p) or 'root', how, 'one'),
                            wrap_at(tree, p, how, 'one')))
        # comment() and trailing_comment() stacked on the same node, both orders
        stacked = [p for p, how in singles if how == 'tc']
        for p in (stacked if tier == 'thorough' else stacked[:3]):
            for order in (('c', 'tc'), ('tc', 'c')):
                spec = wrap_at(tree, p, order[0], 'inner note')
                spec = wrap_at(spec, p, order[1], 'outer words here')
                out.append(('%s@%s:stacked-%s-%s' % (name, '/'.join('%s%d' % x for x in p) or 'root', order[0], order[1]), spec))
        # pairs
        npairs = 2 if tier == 'quick' else 10
        for j in range(npairs):
            if len(singles) < 2:
                break
            (p1, h1), (p2, h2) = rnd.sample(singles, 2)
            t1 = TEXTS[ti % len(TEXTS)]
            t2 = TEXTS[(ti + 5) % len(TEXTS)] + ' two'
            ti += 1
            # wrap the deeper path first so that the other path stays valid
            first, second = ((p1, h1, t1), (p2, h2, t2))
            if len(p1) < len(p2) or (p1 == p2):
                first, second = second, first
            if p1 == p2 and h1 == h2:
                continue
            spec = wrap_at(tree, first[0], first[1], first[2])
            if first[0] == second[0]:
                # same node: comment + trailing comment stacked
                spec = wrap_at(spec, second[0], second[1], second[2])
            elif second[0] == first[0][:len(second[0])]:
                spec = wrap_at(spec, second[0], second[1], second[2])
            else:
                spec = wrap_at(spec, second[0], second[1], second[2])
            out.append(('%s@pair%d' % (name, j), spec))
    return out


THOROUGH_KEEP = {'*': 0.75}      # see vf/runner.py (time: about 10 minutes per thorough tier)


def cases(tier, seed):
    out = []
    for i, (name, spec) in enumerate(placements(tier, seed)):
        out.append({'name': name + '|page', 'family': 'comment',
                    'params': {'spec': spec, 'slice': 'page'},
                    'budget': 60.0 if tier == 'quick' else 200.0, 'path_timeout': 30.0,
                    'twin': i == 0})
        if tier == 'thorough' and i % 4 == 0:
            out.append({'name': name + '|ribbon', 'family': 'comment',
                        'params': {'spec': spec, 'slice': 'ribbon'}, 'budget': 200.0})
            out.append({'name': name + '|narrow', 'family': 'comment',
                        'params': {'spec': spec, 'slice': 'narrow'}, 'budget': 200.0})
    return out


def evidence(tier, seed, tasks, results):
    return {
        'coverage': {
            'bounds': {
                'width': '1..200 symbolic (page slice)' + ('; ribbon and narrow 2-D slices on every 4th placement' if tier == 'thorough' else ''),
                'trees': [n for n, _ in BASE_TREES],
                'placements': 'every node x comment(), every list/tuple/set/dict node x trailing_comment(), seeded pairs',
                'texts': len(TEXTS),
            },
            'outside_the_claim': 'trailing_comment on nodes whose printer does not support it (documented warning); texts beyond the list',
        },
        'assumptions': ['reference tree = ast of the uncommented value printed at unbounded width (C01 covers that output)',
                        'lemma L1; CrossHair; z3; ast / tokenize as oracle'],
    }
