"""C01 - printed built-in values evaluate back to an equal value of the same types.

Family 'value' (A): concrete value trees over an adversarial leaf alphabet;
  symbolic: page width and ribbon width (slices), enumerated: value, indent,
  sort_dict_keys.
Family 'atoms' (B): value skeletons whose leaves are unbreakable tokens of
  symbolic width (1..30, all at once) - "every int / short literal of every
  width"; symbolic: the atom widths and the page width.
"""
from crosshair.tracers import NoTracing

from vf import base, pfbase, gen_values
from vf.pfbase import PP


class ValueCase(pfbase.CfgCase):
    def __init__(self, params):
        super().__init__(params)
        self.src = params['value']
        self.value = gen_values.make_value(self.src)
        self.indent = params.get('indent', 4)
        self.sort = params.get('sort', False)
        if self.sort:
            self.expected, self.order_defined = _sorted_value(self.value)
        else:
            self.expected, self.order_defined = self.value, True

    def run(self, w, rw):
        try:
            if self.native:
                text = pfbase.native_pformat(self.value, w, rw, indent=self.indent,
                                             sort_dict_keys=self.sort)
            else:
                text = pfbase.ptext(self.value, w, rw, indent=self.indent,
                                    sort_dict_keys=self.sort)
        except Exception as e:
            exc = type(e).__name__
            return self.fail('C01:pformat-raises-' + exc, lambda: '%s: %s' % (exc, e))
        with NoTracing():
            return self.judge(text, w, rw)

    def judge(self, text, w, rw):
        describe = lambda: 'value=%s indent=%d sort=%r w=%r rw=%r\noutput:\n%s' % (
            self.src, self.indent, self.sort, w, rw, text)
        try:
            got = pfbase.eval_text(text, pfbase.builtins_ns())
        except SyntaxError as e:
            return self.fail(self.classify(text, 'C01:output-not-an-expression'), describe)
        except Exception as e:
            return self.fail('C01:output-does-not-evaluate-' + type(e).__name__, describe)
        if self.order_defined:
            ok = pfbase.strict_eq(got, self.expected)
        else:
            ok = _eq_any_order(got, self.expected)
        if not ok:
            return self.fail(self.classify(text, 'C01:evaluates-to-different-value'), describe)
        return True

    def classify(self, text, default):
        """Specific key for the known class "empty string literal missing"."""
        return default


def _sorted_value(v):
    """(expected value, fully_defined): dicts re-ordered ascending when their
    keys are mutually comparable."""
    defined = [True]

    def walk(x):
        if isinstance(x, dict):
            items = [(k, walk(val)) for k, val in x.items()]
            keys = [k for k, _ in items]
            comparable = True
            for i in range(len(keys)):
                for j in range(len(keys)):
                    if i != j:
                        try:
                            keys[i] < keys[j]
                        except TypeError:
                            comparable = False
            if comparable and not any(isinstance(k, float) and k != k for k in keys):
                items.sort(key=lambda kv: kv[0])
            else:
                if len(items) > 1:
                    defined[0] = False
            return dict(items)
        if isinstance(x, list):
            return [walk(y) for y in x]
        if isinstance(x, tuple):
            return tuple(walk(y) for y in x)
        return x
    return walk(v), defined[0]


def _eq_any_order(a, b):
    """strict equality except that dict order is free."""
    if type(a) is not type(b):
        return False
    if isinstance(a, dict):
        if len(a) != len(b):
            return False
        rest = list(b.items())
        for k, v in a.items():
            for j, (k2, v2) in enumerate(rest):
                if pfbase.strict_eq(k, k2) and _eq_any_order(v, v2):
                    del rest[j]
                    break
            else:
                return False
        return True
    if isinstance(a, (list, tuple)):
        return len(a) == len(b) and all(_eq_any_order(x, y) for x, y in zip(a, b))
    return pfbase.strict_eq(a, b)


class AtomValueCase(pfbase.AtomCase):
    def __init__(self, params):
        super().__init__(params)
        self.indent = params.get('indent', 4)

    def run(self, texts, w, rw):
        if self.native:
            # replay: keep the lengths, use evaluable distinct names
            texts = ['pqrst'[k] + '_' * (len(t) - 1) for k, t in enumerate(texts)]
        self.bind(texts)
        try:
            stream = pfbase.sdocs(self.value, w, rw, self.native, indent=self.indent,
                                  traced_printers=True)
        except Exception as e:
            exc = type(e).__name__
            return self.fail('C01:pformat-raises-' + exc, lambda: '%s: %s' % (exc, e))
        if self.native:
            text = pfbase.stream_text(stream)
            ns = dict(self.ns)
            for a, t in zip(self.atoms, texts):
                ns[t] = a
        else:
            text = pfbase.stream_text(stream, self.names(texts))
            ns = self.ns
        with NoTracing():
            describe = lambda: 'skeleton=%s w=%r rw=%r\noutput:\n%s' % (self.src, w, rw, text)
            try:
                got = pfbase.eval_text(text, dict(ns))
            except Exception as e:
                return self.fail('C01:output-not-an-expression', describe)
            if not _same_atoms(got, self.value):
                return self.fail('C01:evaluates-to-different-value', describe)
            return True


def _same_atoms(a, b):
    if isinstance(b, pfbase.Atom):
        return a is b
    if type(a) is not type(b):
        return False
    if isinstance(a, (list, tuple)):
        return len(a) == len(b) and all(_same_atoms(x, y) for x, y in zip(a, b))
    if isinstance(a, dict):
        return len(a) == len(b) and all(
            _same_atoms(k1, k2) and _same_atoms(v1, v2)
            for (k1, v1), (k2, v2) in zip(a.items(), b.items()))
    if isinstance(a, (set, frozenset)):
        return a == b
    return a == b


FAMILIES = {
    'value': pfbase.cfg_family('value', ValueCase),
    'atoms': pfbase.atoms_family('atoms', AtomValueCase),
}


def run_case(task):
    return base.generic_run_case(FAMILIES, task)


def replay_case(task):
    return base.generic_replay_case(FAMILIES, task)


THOROUGH_KEEP = {'*': 0.45}      # see vf/runner.py (time: about 10 minutes per thorough tier)


def cases(tier, seed):
    out = []
    corpus = gen_values.corpus(tier, seed)
    twin_done = False
    for idx, (name, src) in enumerate(corpus):
        has_dict = '{' in src and ':' in src
        # sort_dict_keys on mutually incomparable keys orders them by id() of
        # temporary wrapper objects (nondeterministic across paths): only
        # dicts with comparable keys are printed sorted (see DESIGN.md 6)
        sortable = has_dict and _sorted_value(gen_values.make_value(src))[1]
        slices = ['page', 'ribbon'] if tier == 'thorough' or idx % 3 == 0 else ['page']
        for sl in slices:
            variants = [(4, False)]
            if sortable and sl == 'page':
                variants.append((4, True))
            elif not has_dict and sl == 'page' and ('set' in src or '{' in src or idx % 6 == 0):
                # the sort flag must be inert for values without dicts
                variants.append((4, True))
            if tier == 'thorough' and sl == 'page' and idx % 2 == 0:
                variants += [(1 + idx % 3, False), (8, sortable)]
            elif idx % 5 == 0 and sl == 'page':
                variants.append((1 + idx % 8, False))
            for indent, sort in dict.fromkeys(variants):
                out.append({
                    'name': '%s|%s|i%d%s' % (name, sl, indent, '|sorted' if sort else ''),
                    'family': 'value',
                    'params': {'value': src, 'slice': sl, 'indent': indent, 'sort': sort},
                    'budget': 60.0 if tier == 'quick' else 240.0,
                    'path_timeout': 30.0,
                    'twin': not twin_done,
                })
                twin_done = True
    # the 2-D interior on small values
    small = [c for c in corpus if len(c[1]) <= 14][:10 if tier == 'quick' else 60]
    for name, src in small:
        out.append({'name': '%s|narrow|i4' % name, 'family': 'value',
                    'params': {'value': src, 'slice': 'narrow', 'indent': 4, 'sort': False},
                    'budget': 60.0 if tier == 'quick' else 200.0})
    if tier == 'thorough':
        for name, src in small[:25]:
            out.append({'name': '%s|mixed|i4' % name, 'family': 'value',
                        'params': {'value': src, 'slice': 'mixed', 'indent': 4, 'sort': False},
                        'budget': 300.0})
    sk = gen_values.ATOM_SKELETONS
    for j, s in enumerate(sk if tier == 'thorough' else sk[:7]):
        out.append({'name': 'atoms:%s|page' % s, 'family': 'atoms',
                    'params': {'skeleton': s, 'slice': 'page'},
                    'budget': 100.0 if tier == 'quick' else 400.0, 'path_timeout': 30.0,
                    'twin': j == 0})
    return out


def evidence(tier, seed, tasks, results):
    return {
        'coverage': {
            'bounds': {
                'width': '1..200 symbolic on the page slice (ribbon_width >= width)',
                'ribbon_width': '1..200 symbolic on the ribbon slice (width = 200); narrow slice: 1 <= rw <= w <= 24 both symbolic'
                                + ('; mixed: full 200x200 on small values' if tier == 'thorough' else ''),
                'indent / sort_dict_keys': 'enumerated per case (see case names)',
                'atom widths': '1..30 each, symbolic, all atoms at once (family atoms)',
                'values': 'adversarial leaf alphabet at top level, %d container skeletons with rotating leaf assignments, long str/bytes in six contexts'
                          % len(gen_values.SKELETONS),
            },
            'outside_the_claim': 'interior of the 200x200 (width, ribbon) square except on the narrow/mixed cases; value trees beyond the corpus; depth/max_seq_len at defaults',
        },
        'assumptions': [
            'lemma L1 (ribbon float == min(rw, w), discharged under C05/C06)',
            'text is assembled from the SDoc stream with SLine -> newline; the renderer itself is covered by C04-e and C18',
            'CPython eval is the oracle; CrossHair models of built-ins; z3',
        ],
    }
