"""C15 - printer dispatch follows the class hierarchy for every registration history.

Symbolic: the operation codes of the history (length k); each code is
concretised by an explicit chain, so the solver enumerates the histories and
every is_registered / print result is compared with a reference model.
Enumerated: the class lattice (vf/lattice.py).  Registries are reset at the
start of every path.
"""
import importlib
import warnings

from crosshair.tracers import NoTracing

from vf import base, lattice, pkgstate
from vf.pfbase import PP
import prettyprinter as PKG

CASE = None


def _install(case):
    global CASE
    CASE = case


# ---- registry snapshot / reset ---------------------------------------------

def _cells():
    reg = PP.pretty_dispatch.register
    names = reg.__code__.co_freevars
    return dict(zip(names, [c.cell_contents for c in reg.__closure__]))


_SNAP = {}


def snapshot():
    pkgstate.snapshot_generic()
    if 'registry' in _SNAP:
        return
    cells = _cells()
    _SNAP['registry'] = dict(cells['registry'])
    _SNAP['deferred'] = dict(PP._DEFERRED_DISPATCH_BY_NAME)
    _SNAP['predicates'] = list(PP._PREDICATE_REGISTRY)


def reset():
    pkgstate.reset_generic()
    cells = _cells()
    registry = cells['registry']
    for k in list(registry):
        if k not in _SNAP['registry']:
            del registry[k]
    for k, v in _SNAP['registry'].items():
        registry[k] = v
    cells['dispatch_cache'].clear()
    PP._DEFERRED_DISPATCH_BY_NAME.clear()
    PP._DEFERRED_DISPATCH_BY_NAME.update(_SNAP['deferred'])
    PP._PREDICATE_REGISTRY[:] = _SNAP['predicates']


# ---- operations -------------------------------------------------------------

FLAGS = [  # (check_superclasses, check_deferred, register_deferred)
    (False, True, True), (False, True, False), (False, False, False),
    (True, True, True), (True, True, False), (True, False, False),
]

PREDICATES = {
    'isG': lambda v: isinstance(v, lattice.G),
    'isA': lambda v: isinstance(v, lattice.A),
    'any': lambda v: type(v).__module__ == 'vf.lattice',
    # value dependent: accepts only some instances of a class
    'bigU': lambda v: isinstance(v, lattice.U) and v.n >= 10,
}

INSTANCES = {'U-small': lambda: lattice.U(1), 'U-big': lambda: lattice.U(20)}


def op_table(classes, print_classes, query_classes, preds):
    ops = []
    for c in classes:
        ops.append(('reg-class', c))
    for c in classes:
        ops.append(('reg-name', c))
    for p in preds:
        ops.append(('reg-pred', p))
    for c in print_classes:
        ops.append(('print', c))
    for c in query_classes:
        for f in range(len(FLAGS)):
            ops.append(('query', c, f))
    return ops


class Model:
    """Reference: nearest class in the MRO with a registration of either kind
    (latest wins), else first-registered accepting predicate, else repr."""

    def __init__(self):
        self.latest = {}        # class name -> (tag, kind) of the latest registration
        self.direct = set()     # classes that certainly have a direct registration
        self.any = set()        # classes with a registration of either kind
        self.preds = []

    def dispatch(self, cls, inst=None):
        for k in cls.__mro__:
            if k is object:
                break
            if k.__name__ in self.latest:
                return self.latest[k.__name__][0]
        inst_probe = cls() if inst is None else inst
        for pname, tag in self.preds:
            if PREDICATES[pname](inst_probe):
                return tag
        return repr(inst_probe)

    def registered(self, cls, supers, deferred):
        """(must_be_true, must_be_false): with check_deferred=False a class
        that only has by-name registrations may or may not have been promoted
        already - either answer is consistent with the rule."""
        chain = [k for k in cls.__mro__ if k is not object] if supers else [cls]
        names = [k.__name__ for k in chain]
        has_any = any(n in self.any for n in names)
        has_direct = any(n in self.direct for n in names)
        if deferred:
            return has_any, not has_any
        return has_direct, not has_any


class HistoryCase(base.CaseBase):
    def __init__(self, params):
        super().__init__(params)
        snapshot()
        self.k = params['k']
        self.ops = [tuple(o) for o in params['ops']]
        self.first = params.get('first')          # fixed first op (partition) or None
        self.final = params.get('final', ['G', 'P', 'C', 'A', 'B', 'M', 'U'])
        self.traced = params.get('traced', self.k <= 2)

    def pre(self, codes):
        n = len(self.ops)
        for j, c in enumerate(codes):
            if j < self.k:
                if j == 0 and self.first is not None:
                    if c != self.first:
                        return False
                elif not (0 <= c and c < n):
                    return False
            elif c != 0:
                return False
        return True

    def run(self, codes):
        # concretise the op codes
        hist = []
        for j in range(self.k):
            c = codes[j]
            op = None
            for q in range(len(self.ops)):
                if c == q:
                    op = self.ops[q]
                    break
            hist.append(op)
        if self.traced or self.native:
            return self.execute(hist)
        # nothing symbolic is left once the codes are concrete: longer
        # histories run the real code untraced (the solver still enumerates
        # the histories path by path)
        with NoTracing():
            return self.execute(hist)

    def execute(self, hist):
        reset()
        model = Model()
        tagno = [0]

        def fresh():
            tagno[0] += 1
            tag = 'TAG%d' % tagno[0]

            def printer(value, ctx):
                return tag
            printer.__qualname__ = 'printer_' + tag
            return tag, printer
        trace = []
        describe = lambda: 'history=%r\ntrace=%r' % (hist, trace)
        try:
            with warnings.catch_warnings():
                warnings.simplefilter('ignore')
                for op in hist:
                    kind = op[0]
                    if kind == 'reg-class':
                        tag, fn = fresh()
                        PP.register_pretty(lattice.BY_NAME[op[1]])(fn)
                        model.latest[op[1]] = (tag, 'class')
                        model.direct.add(op[1])
                        model.any.add(op[1])
                        trace.append((op, tag))
                    elif kind == 'reg-name':
                        tag, fn = fresh()
                        PP.register_pretty('vf.lattice.' + op[1])(fn)
                        model.latest[op[1]] = (tag, 'name')
                        model.any.add(op[1])
                        trace.append((op, tag))
                    elif kind == 'reg-pred':
                        tag, fn = fresh()
                        PP.register_pretty(predicate=PREDICATES[op[1]])(fn)
                        model.preds.append((op[1], tag))
                        trace.append((op, tag))
                    elif kind == 'print-inst':
                        inst = INSTANCES[op[1]]()
                        got = PKG.pformat(inst)
                        want = model.dispatch(type(inst), inst)
                        trace.append((op, got, want))
                        if got != want:
                            return self.fail(self.classify(hist, 'C15:wrong-printer-used'), describe)
                    elif kind == 'print':
                        cls = lattice.BY_NAME[op[1]]
                        got = PKG.pformat(cls())
                        want = model.dispatch(cls)
                        trace.append((op, got, want))
                        if got != want:
                            return self.fail(self.classify(hist, 'C15:wrong-printer-used'), describe)
                    elif kind == 'query':
                        cls = lattice.BY_NAME[op[1]]
                        sup, dfr, reg = FLAGS[op[2]]
                        got = PP.is_registered(cls, check_superclasses=sup, check_deferred=dfr,
                                               register_deferred=reg)
                        must_true, must_false = model.registered(cls, sup, dfr)
                        trace.append((op, got, must_true, must_false))
                        if (must_true and got is not True) or (must_false and got is not False):
                            return self.fail('C15:is_registered-inconsistent', describe)
                for iname in sorted(INSTANCES):
                    inst = INSTANCES[iname]()
                    got = PKG.pformat(inst)
                    want = model.dispatch(type(inst), inst)
                    trace.append((('final-print-inst', iname), got, want))
                    if got != want:
                        return self.fail(self.classify(hist, 'C15:wrong-printer-used'), describe)
                both = [INSTANCES[i]() for i in sorted(INSTANCES)]
                got = PKG.pformat(both)
                want = '[' + ', '.join(model.dispatch(type(x), x) for x in both) + ']'
                trace.append((('final-print-list', 'instances'), got, want))
                if got != want:
                    return self.fail(self.classify(hist, 'C15:wrong-printer-used'), describe)
                for name in self.final:
                    cls = lattice.BY_NAME[name]
                    got = PKG.pformat(cls())
                    want = model.dispatch(cls)
                    trace.append((('final-print', name), got, want))
                    if got != want:
                        return self.fail(self.classify(hist, 'C15:wrong-printer-used'), describe)
        except Exception as e:
            exc = type(e).__name__
            return self.fail('C15:operation-raises-' + exc, lambda: describe() + '\n%s: %s' % (exc, e))
        finally:
            reset()
        return True

    def classify(self, hist, default):
        """Specific key: a by-name registration made after a direct
        registration of the same class is ignored."""
        seen_direct = set()
        for op in hist:
            if op is None:
                continue
            if op[0] == 'reg-class':
                seen_direct.add(op[1])
            elif op[0] == 'reg-name' and op[1] in seen_direct:
                return 'C15:by-name-registration-after-direct-one-ignored'
        return default

    def run_native(self, args):
        return self.run([args['o1'], args['o2'], args['o3'], args['o4']])


def _pre(o1, o2, o3, o4):
    return CASE.pre([o1, o2, o3, o4])


def h_history(o1: int, o2: int, o3: int, o4: int) -> bool:
    """
    pre: _pre(o1, o2, o3, o4)
    post: _
    """
    return CASE.run([o1, o2, o3, o4])


def h_history_twin(o1: int, o2: int, o3: int, o4: int) -> bool:
    """
    pre: _pre(o1, o2, o3, o4)
    post: False
    """
    CASE.run([o1, o2, o3, o4])
    return True


FAMILIES = {'history': base.Family('history', h_history, h_history_twin, HistoryCase, _install)}


def run_case(task):
    return base.generic_run_case(FAMILIES, task)


def replay_case(task):
    return base.generic_replay_case(FAMILIES, task)


FULL_OPS = op_table(['G', 'P', 'C', 'A', 'M'], ['C', 'M', 'P'], ['C', 'M', 'G'], ['isG', 'any'])
REG_OPS = op_table(['G', 'P', 'C', 'A', 'B', 'M'], ['C', 'M', 'G'], [], ['isG', 'isA', 'any'])
# value-dependent predicates and instance prints
PRED_OPS = [('reg-pred', 'bigU'), ('reg-pred', 'any'), ('reg-class', 'U'), ('reg-name', 'U'),
            ('print-inst', 'U-small'), ('print-inst', 'U-big'), ('print', 'U'), ('reg-pred', 'isG')]


def cases(tier, seed):
    out = []
    # k = 1, 2 over the full op table
    out.append({'name': 'k1:full', 'family': 'history',
                'params': {'k': 1, 'ops': FULL_OPS}, 'budget': 120.0, 'twin': True})
    for f in range(len(FULL_OPS)):
        out.append({'name': 'k2:full:first=%s' % '-'.join(map(str, FULL_OPS[f])), 'family': 'history',
                    'params': {'k': 2, 'ops': FULL_OPS, 'first': f},
                    'budget': 120.0 if tier == 'quick' else 300.0})
    # k = 3: registrations / prints only (quick), full table (thorough)
    ops3 = REG_OPS if tier == 'quick' else FULL_OPS
    for f in range(len(ops3)):
        out.append({'name': 'k3:%s:first=%s' % ('reg' if tier == 'quick' else 'full', '-'.join(map(str, ops3[f]))),
                    'family': 'history', 'params': {'k': 3, 'ops': ops3, 'first': f},
                    'budget': 150.0 if tier == 'quick' else 1500.0, 'path_timeout': 60.0})
    for f in range(len(PRED_OPS)):
        out.append({'name': 'k3:pred:first=%s' % '-'.join(map(str, PRED_OPS[f])), 'family': 'history',
                    'params': {'k': 3, 'ops': PRED_OPS, 'first': f, 'final': ['U', 'G']},
                    'budget': 120.0 if tier == 'quick' else 600.0, 'path_timeout': 60.0})
    if tier == 'thorough':
        small = op_table(['G', 'P', 'A'], ['C', 'M'], [], ['isG'])
        for f in range(len(small)):
            out.append({'name': 'k4:small:first=%s' % '-'.join(map(str, small[f])), 'family': 'history',
                        'params': {'k': 4, 'ops': small, 'first': f}, 'budget': 1500.0, 'path_timeout': 60.0})
    return out


def evidence(tier, seed, tasks, results):
    return {
        'coverage': {
            'bounds': {
                'history length': 'k = 1, 2 over %d operation codes; k = 3 over %d codes%s' % (
                    len(FULL_OPS), len(REG_OPS) if tier == 'quick' else len(FULL_OPS),
                    '; k = 4 over a reduced table' if tier == 'thorough' else ''),
                'operations': 'register by class, by qualified name, by predicate (fresh tagged printer each), print an instance, is_registered with each of the 6 legal flag combinations',
                'lattice': 'G <- P <- C, M(A, B), U',
                'after every history': 'an instance of every class is printed and compared with the reference dispatch',
            },
            'note': 'operation codes are solver variables concretised by explicit chains: the solver enumerates the histories (each path is one history); for k <= 2 the real registration / dispatch code runs under the tracer, for k >= 3 it runs untraced once the codes are concrete',
            'outside_the_claim': 'longer histories; other lattices; ABCs / virtual subclasses',
        },
        'assumptions': ['reference model vf/props/c15.py:Model; with check_deferred=False a class that only has by-name registrations may answer either way (promotion state)',
                        'registries are reset from an import-time snapshot at the start of every path'],
    }
