"""JSON-able value-tree specifications (C09, C10, C11, C13...).

  ['leaf', src]                 a Python literal given as source
  ['list', [n...]]  ['tuple', [n...]]  ['set', [n...]]  ['frozenset', [n...]]
  ['dict', [[k, v]...]]
  ['ulist', [n...]]  ['utuple', [n...]]  ['udict', [[k, v]...]]   instances of vf.subcls.PlainList / PlainTuple / PlainDict
  ['box', [n...], [[name, n]...]]   user type printed through pretty_call
  ['c', text, n]   comment(value, text)
  ['tc', text, n]  trailing_comment(value, text)
"""
import prettyprinter as PKG


def build(spec, with_comments=True):
    kind = spec[0]
    if kind == 'leaf':
        return eval(spec[1], {'__builtins__': {'float': float, 'frozenset': frozenset,
                                               'set': set, 'bytes': bytes}})
    if kind == 'list':
        return [build(c, with_comments) for c in spec[1]]
    if kind == 'tuple':
        return tuple(build(c, with_comments) for c in spec[1])
    if kind == 'set':
        return set(build(c, with_comments) for c in spec[1])
    if kind == 'frozenset':
        return frozenset(build(c, with_comments) for c in spec[1])
    if kind == 'dict':
        return {build(k, with_comments): build(v, with_comments) for k, v in spec[1]}
    if kind in ('ulist', 'utuple'):
        from vf import subcls
        cls = subcls.PlainList if kind == 'ulist' else subcls.PlainTuple
        return cls([build(c, with_comments) for c in spec[1]])
    if kind == 'udict':
        from vf import subcls
        return subcls.PlainDict({build(k, with_comments): build(v, with_comments) for k, v in spec[1]})
    if kind == 'box':
        from vf.props.c02 import Box, register_box
        register_box()
        args = [build(c, with_comments) for c in spec[1]]
        kw = {n: build(c, with_comments) for n, c in (spec[2] if len(spec) > 2 else [])}
        return Box(args[0], **kw)
    if kind == 'c':
        v = build(spec[2], with_comments)
        return PKG.comment(v, spec[1]) if with_comments else v
    if kind == 'tc':
        v = build(spec[2], with_comments)
        return PKG.trailing_comment(v, spec[1]) if with_comments else v
    raise ValueError(spec)


def comments_of(spec):
    """Comment texts in document (pre-)order."""
    out = []
    kind = spec[0]
    if kind in ('c', 'tc'):
        out.append((kind, spec[1]))
        out.extend(comments_of(spec[2]))
    elif kind in ('list', 'tuple', 'set', 'frozenset', 'ulist', 'utuple'):
        for c in spec[1]:
            out.extend(comments_of(c))
    elif kind in ('dict', 'udict'):
        for k, v in spec[1]:
            out.extend(comments_of(k))
            out.extend(comments_of(v))
    elif kind == 'box':
        for c in spec[1]:
            out.extend(comments_of(c))
        for n, c in (spec[2] if len(spec) > 2 else []):
            out.extend(comments_of(c))
    return out


def show(spec):
    kind = spec[0]
    if kind == 'leaf':
        return spec[1]
    if kind in ('list', 'tuple', 'set', 'frozenset'):
        o, c = {'list': '[]', 'tuple': '()', 'set': '{}', 'frozenset': ('fs{', '}')}[kind]
        return o + ', '.join(show(x) for x in spec[1]) + c
    if kind == 'dict':
        return '{' + ', '.join('%s: %s' % (show(k), show(v)) for k, v in spec[1]) + '}'
    if kind in ('ulist', 'utuple'):
        return ('PlainList([' if kind == 'ulist' else 'PlainTuple([') + ', '.join(show(x) for x in spec[1]) + '])'
    if kind == 'udict':
        return 'PlainDict({' + ', '.join('%s: %s' % (show(k), show(v)) for k, v in spec[1]) + '})'
    if kind == 'box':
        return 'Box(' + ', '.join([show(x) for x in spec[1]] +
                                  ['%s=%s' % (n, show(x)) for n, x in (spec[2] if len(spec) > 2 else [])]) + ')'
    if kind == 'c':
        return 'c(%s)' % show(spec[2])
    if kind == 'tc':
        return 'tc(%s)' % show(spec[2])
    return repr(spec)


def L(src):
    return ['leaf', src]
