"""Shared machinery of the pformat-level harnesses (C01-C03, C06b, C07-C11...).

The real pipeline ``python_to_sdocs`` (printers -> Doc -> layout_smart) is run
with the layout configuration symbolic.  The SDoc stream is observed (pformat
itself writes through a C StringIO, which would realise everything); text is
assembled untraced once every fragment on the path is concrete, so that one
concrete ``eval`` / ``ast.parse`` stands for the whole region of
configurations that shares the path.
"""
import ast
import importlib
import io
import math
import tokenize
import warnings

from crosshair.tracers import NoTracing

from vf import base, stubs

PP = importlib.import_module('prettyprinter.prettyprinter')
import prettyprinter as PKG
from prettyprinter.sdoctypes import SLine, SAnnotationPush, SAnnotationPop

MAXW = 200
CASE = None


def install(case):
    global CASE
    CASE = case


# --------------------------------------------------------------------------
# configuration slices (DESIGN.md 2.2)

def slice_pre(sl, w, rw):
    if sl == 'page':       # ribbon inactive: every rw >= w behaves like rw == w
        return 1 <= w and w <= MAXW and rw == w
    if sl == 'ribbon':     # page fixed at the bound, ribbon symbolic
        return w == MAXW and 1 <= rw and rw <= MAXW
    if sl == 'mixed':
        return 1 <= w and w <= MAXW and 1 <= rw and rw <= MAXW
    if sl == 'narrow':     # both symbolic, small page
        return 1 <= w and w <= 24 and 1 <= rw and rw <= w
    if sl == 'default':    # the package's default configuration, concrete
        return w == 79 and rw == 71
    if sl.startswith('page:'):      # sub-range of the page slice
        lo, hi = sl[5:].split('-')
        return int(lo) <= w and w <= int(hi) and rw == w
    if sl.startswith('ribbon:'):
        lo, hi = sl[7:].split('-')
        return w == MAXW and int(lo) <= rw and rw <= int(hi)
    raise ValueError(sl)


SLICE_DEFAULT_ARGS = {'page': (40, 40), 'ribbon': (200, 30), 'mixed': (40, 30),
                      'narrow': (10, 8)}


# --------------------------------------------------------------------------
# running the real pipeline

_orig_ppv = PP.pretty_python_value
_depth = [0]


def _untraced_outermost(value, ctx):
    """The printers run untraced when everything they see is concrete (value,
    indent, depth, max_seq_len are concrete in these harnesses).  Contextual
    evaluators created there (strings) run later, traced, inside the layout."""
    if _depth[0] == 0:
        _depth[0] += 1
        try:
            with NoTracing():
                return _orig_ppv(value, ctx)
        finally:
            _depth[0] -= 1
    return _orig_ppv(value, ctx)


_orig_ctx = PP.PrettyContext


def _ctx_with_real_set(*a, **kw):
    """python_to_sdocs evaluates ``visited=set()`` under the tracer, which
    yields CrossHair's lazy shell set (a chain that overflows the recursion
    limit after ~1000 add/remove operations).  When the printers run untraced
    the context gets a real set instead."""
    with NoTracing():
        # only the outermost creation (python_to_sdocs) passes a shell set; the
        # contexts derived from it must keep sharing the same real set
        if 'visited' in kw and type(kw['visited']) is not set:
            kw['visited'] = set()
        return _orig_ctx(*a, **kw)


def fresh_state():
    """Paths of one case run in the same process: restore every module-level
    container of the package (registries, caches a change may have added,
    lru_caches) to its state at the first run, so that a path never sees what
    an earlier path left behind."""
    from vf.props import c15
    with NoTracing():
        c15.snapshot()
        c15.reset()


KEEP_STATE = [False]


def _bind(native, traced_printers):
    if not KEEP_STATE[0]:
        fresh_state()
    if native or traced_printers:
        PP.pretty_python_value = _orig_ppv
        PP.PrettyContext = _orig_ctx
    else:
        PP.pretty_python_value = _untraced_outermost
        PP.PrettyContext = _ctx_with_real_set


def _unbind():
    PP.pretty_python_value = _orig_ppv
    PP.PrettyContext = _orig_ctx


def sdocs(value, w, rw, native, indent=4, depth=None, max_seq_len=1000,
          sort_dict_keys=False, traced_printers=False):
    _bind(native, traced_printers)
    try:
        return list(PP.python_to_sdocs(
            value, indent=indent, width=w, depth=depth,
            ribbon_width=stubs.ribbon_arg(rw, w, native),
            max_seq_len=max_seq_len, sort_dict_keys=sort_dict_keys))
    finally:
        _unbind()


def ptext(value, w, rw, indent=4, depth=None, max_seq_len=1000,
          sort_dict_keys=False, traced_printers=False):
    """Text of the value through the *public* entry point: pprint into a
    pure-Python sink (pformat's StringIO is C code).  Covers the configuration
    merge and the default renderer as well; every fragment is concrete in the
    families that use this (concrete value and indent), the layout
    configuration is symbolic."""
    _bind(False, traced_printers)
    try:
        sink = stubs.Sink()
        PKG.pprint(value, stream=sink, indent=indent, width=w, depth=depth,
                   ribbon_width=stubs.RW(rw), max_seq_len=max_seq_len,
                   sort_dict_keys=sort_dict_keys, end='')
        with NoTracing():
            return ''.join(sink.parts)
    finally:
        _unbind()


def stream_text(stream, names=None):
    """Text of the stream with every SLine as a bare newline (indentation is
    insignificant inside the enclosing parentheses and is checked separately).
    ``names`` maps id(fragment) -> placeholder for symbolic atom texts."""
    with NoTracing():
        parts = []
        for x in stream:
            if isinstance(x, SLine):
                parts.append('\n')
            elif isinstance(x, (SAnnotationPush, SAnnotationPop)):
                continue
            elif names is not None and id(x) in names:
                parts.append(names[id(x)])
            elif type(x) is str:
                parts.append(x)
            else:
                raise base_unexpected(x)
        return ''.join(parts)


def base_unexpected(x):
    return ValueError('non-concrete fragment in stream: %r' % type(x))


def native_pformat(value, w, rw, **kw):
    return PKG.pformat(value, width=w, ribbon_width=rw, **kw)


def render_native(stream):
    from prettyprinter.render import default_render_to_str
    return default_render_to_str(list(stream))


# --------------------------------------------------------------------------
# oracles

def eval_text(text, ns):
    return eval(compile('(' + text + '\n)', '<pformat>', 'eval'), ns)


def builtins_ns():
    return {'__builtins__': {
        'float': float, 'frozenset': frozenset, 'set': set, 'Ellipsis': Ellipsis,
        'True': True, 'False': False, 'None': None, 'tuple': tuple, 'list': list,
        'dict': dict, 'str': str, 'bytes': bytes, 'int': int, 'bool': bool,
        'type': type, 'object': object,
    }}


def strict_eq(a, b):
    """Structural equality with exactly the same type at every position."""
    if type(a) is not type(b):
        return False
    if isinstance(a, float):
        if math.isnan(a) or math.isnan(b):
            return math.isnan(a) and math.isnan(b)
        return a == b and math.copysign(1.0, a) == math.copysign(1.0, b)
    if isinstance(a, (list, tuple)):
        return len(a) == len(b) and all(strict_eq(x, y) for x, y in zip(a, b))
    if isinstance(a, dict):
        if len(a) != len(b):
            return False
        return all(strict_eq(k1, k2) and strict_eq(v1, v2)
                   for (k1, v1), (k2, v2) in zip(a.items(), b.items()))
    if isinstance(a, (set, frozenset)):
        if len(a) != len(b):
            return False
        rest = list(b)
        for x in a:
            for j, y in enumerate(rest):
                if strict_eq(x, y):
                    del rest[j]
                    break
            else:
                return False
        return True
    return a == b


def contains_nan(v):
    if isinstance(v, float):
        return math.isnan(v)
    if isinstance(v, dict):
        return any(contains_nan(k) or contains_nan(x) for k, x in v.items())
    if isinstance(v, (list, tuple, set, frozenset)):
        return any(contains_nan(x) for x in v)
    return False


def sorted_expectation(v):
    """The value with every dict (recursively) in ascending key order when its
    keys are mutually comparable; otherwise None at that dict (order free)."""
    if isinstance(v, dict):
        items = [(k, sorted_expectation(x)) for k, x in v.items()]
        try:
            items.sort(key=lambda kv: kv[0])
            keys = [k for k, _ in items]
            for i in range(len(keys)):
                for j in range(i + 1, len(keys)):
                    keys[i] < keys[j]
            return type(v)(items), True
        except TypeError:
            return type(v)(items), False
    return v, True


def ast_dump(text):
    return ast.dump(ast.parse('(' + text + '\n)', mode='eval'))


def split_tokens(text):
    """(code_tokens, comment_texts) of '(' text ')'."""
    src = '(' + text + '\n)'
    code = []
    comments = []
    for tok in tokenize.generate_tokens(io.StringIO(src).readline):
        if tok.type == tokenize.COMMENT:
            comments.append(tok.string)
        elif tok.type in (tokenize.NL, tokenize.NEWLINE, tokenize.INDENT,
                          tokenize.DEDENT, tokenize.ENDMARKER):
            continue
        else:
            code.append((tok.type, tok.string))
    return code, comments


# --------------------------------------------------------------------------
# generic harnesses: layout configuration symbolic

def _pre_cfg(w, rw):
    return CASE.pre(w, rw)


def h_cfg(w: int, rw: int) -> bool:
    """
    pre: _pre_cfg(w, rw)
    post: _
    """
    return CASE.run(w, rw)


def h_cfg_twin(w: int, rw: int) -> bool:
    """
    pre: _pre_cfg(w, rw)
    post: False
    """
    CASE.run(w, rw)
    return True


class CfgCase(base.CaseBase):
    """Base of the cases whose only symbolic parameters are (w, rw)."""

    def __init__(self, params):
        super().__init__(params)
        self.slice = params.get('slice', 'page')

    def pre(self, w, rw):
        return slice_pre(self.slice, w, rw)

    def run_native(self, args):
        return self.run(args['w'], args['rw'])

    PROBES = [(79, 71), (1, 1), (7, 7), (12, 12), (20, 20), (33, 33), (40, 30), (60, 60), (79, 79),
              (79, 20), (120, 120), (200, 200), (25, 12), (50, 50)]

    def native_probes(self):
        """Concrete configurations of this case's slice for the native
        cross-check (vf.base.native_crosscheck)."""
        out = []
        for w, rw in self.PROBES + list(self.extra_probes()):
            try:
                ok = self.pre(w, rw)
            except Exception:
                ok = False
            if ok:
                out.append({'w': w, 'rw': rw})
            if len(out) >= 6:
                break
        return out

    def extra_probes(self):
        return ()


def cfg_family(name, make):
    return base.Family(name, h_cfg, h_cfg_twin, make, install)


# --------------------------------------------------------------------------
# atoms: unbreakable tokens of symbolic width

class Atom:
    """Printed through a registered printer as a text of symbolic length; stands
    for numbers, names, short literals of *any* width."""
    __slots__ = ('k', 'text')

    def __init__(self, k):
        self.k = k
        self.text = None

    def __repr__(self):
        return 'Atom(%d)' % self.k


def _pretty_atom(value, ctx):
    return value.text


_atom_registered = [False]


def register_atom_printer():
    if not _atom_registered[0]:
        PP.register_pretty(Atom)(_pretty_atom)
        _atom_registered[0] = True


def _pre_atoms(a, b, c, d, e, w, rw):
    return CASE.pre([a, b, c, d, e], w, rw)


def h_atoms(a: str, b: str, c: str, d: str, e: str, w: int, rw: int) -> bool:
    """
    pre: _pre_atoms(a, b, c, d, e, w, rw)
    post: _
    """
    return CASE.run([a, b, c, d, e], w, rw)


def h_atoms_twin(a: str, b: str, c: str, d: str, e: str, w: int, rw: int) -> bool:
    """
    pre: _pre_atoms(a, b, c, d, e, w, rw)
    post: False
    """
    CASE.run([a, b, c, d, e], w, rw)
    return True


def atoms_family(name, make):
    return base.Family(name, h_atoms, h_atoms_twin, make, install)


ATOM_NAMES = ['A0', 'A1', 'A2', 'A3', 'A4']


class AtomCase(base.CaseBase):
    """Value skeleton given as Python source over the names A0..A4."""
    MAXLEN = 30

    def __init__(self, params):
        super().__init__(params)
        register_atom_printer()
        self.slice = params.get('slice', 'page')
        self.src = params['skeleton']
        self.atoms = [Atom(k) for k in range(5)]
        self.ns = dict(builtins_ns())
        for k, a in enumerate(self.atoms):
            self.ns[ATOM_NAMES[k]] = a
        self.value = eval(self.src, dict(self.ns))
        self.natoms = sum(1 for k in range(5) if ATOM_NAMES[k] in self.src)

    def pre(self, texts, w, rw):
        for k, t in enumerate(texts):
            if k < self.natoms:
                if not (1 <= len(t) <= self.MAXLEN):
                    return False
            elif len(t) != 1:
                return False
        return slice_pre(self.slice, w, rw)

    def bind(self, texts):
        for a, t in zip(self.atoms, texts):
            a.text = t

    def names(self, texts):
        """id(fragment) -> placeholder; natively atom texts are plain strs, so
        the caller substitutes distinct printable texts instead."""
        with NoTracing():
            return {id(t): ' %s ' % ATOM_NAMES[k] for k, t in enumerate(texts)}

    def run_native(self, args):
        return self.run([args['a'], args['b'], args['c'], args['d'], args['e']],
                        args['w'], args['rw'])


# the import-time state of every module-level container of the package (before
# anything was printed in this process); see fresh_state()
from vf import pkgstate as _pkgstate  # noqa: E402
_pkgstate.snapshot_generic()
