"""Small class lattice for the dispatch property (C15)."""


class G:
    def __repr__(self):
        return 'REPR_G'


class P(G):
    def __repr__(self):
        return 'REPR_P'


class C(P):
    def __repr__(self):
        return 'REPR_C'


class A:
    def __repr__(self):
        return 'REPR_A'


class B:
    def __repr__(self):
        return 'REPR_B'


class M(A, B):
    def __repr__(self):
        return 'REPR_M'


class U:
    def __init__(self, n=0):
        self.n = n

    def __repr__(self):
        return 'REPR_U' if self.n == 0 else 'REPR_U%d' % self.n


CLASSES = [G, P, C, A, B, M, U]
BY_NAME = {c.__name__: c for c in CLASSES}
