"""Import-time snapshot / restore of every module-level container of the
prettyprinter package (registries excluded: they are handled by vf.props.c15
after the harness registered its own printers)."""
import prettyprinter  # noqa: F401  (make sure the package modules are loaded)

_SNAP = {}
def _state_modules():
    import sys
    return [m for n, m in sorted(sys.modules.items())
            if (n == 'prettyprinter' or n.startswith('prettyprinter.')) and m is not None]


REGISTRY_NAMES = ('_DEFERRED_DISPATCH_BY_NAME', '_PREDICATE_REGISTRY')


def _generic_snapshot():
    """Contents of every module-level container of the package (whatever its
    name: a change to the code may add new module state), so that a reset
    really restores the import-time state."""
    import weakref
    snap = []
    for mod in _state_modules():
        for name, v in list(vars(mod).items()):
            if name.startswith('__') or name in REGISTRY_NAMES:
                continue        # the registries are snapshotted late (after the harness registered its printers)
            if isinstance(v, dict) and type(v) is dict:
                snap.append((mod, name, 'dict', dict(v)))
            elif isinstance(v, list) and type(v) is list:
                snap.append((mod, name, 'list', list(v)))
            elif isinstance(v, set) and type(v) is set:
                snap.append((mod, name, 'set', set(v)))
            elif isinstance(v, weakref.WeakSet):
                snap.append((mod, name, 'weakset', list(v)))
            elif isinstance(v, (weakref.WeakKeyDictionary, weakref.WeakValueDictionary)):
                snap.append((mod, name, 'weakdict', list(v.items())))
            elif v is None or type(v) in (bool, int, float, str, bytes, tuple, frozenset):
                # module-level flags ("already loaded", counters, ...)
                snap.append((mod, name, 'scalar', v))
            elif type(v).__module__ == 'itertools':
                # module-level iterators (cycle, count, ...) keep a position
                import copy
                import warnings
                try:
                    with warnings.catch_warnings():
                        warnings.simplefilter('ignore')     # (copy support of itertools is deprecated)
                        snap.append((mod, name, 'iterator', copy.copy(v)))
                except Exception:
                    pass
    return snap


def _generic_reset():
    import weakref
    known = set()
    for mod, name, kind, content in _SNAP.get('generic', ()):
        known.add((mod.__name__, name))
        cur = vars(mod).get(name)
        try:
            if kind == 'dict' and isinstance(cur, dict):
                cur.clear()
                cur.update(content)
            elif kind == 'list' and isinstance(cur, list):
                cur[:] = content
            elif kind == 'set' and isinstance(cur, set):
                cur.clear()
                cur.update(content)
            elif kind == 'weakset' and isinstance(cur, weakref.WeakSet):
                cur.clear()
                for x in content:
                    cur.add(x)
            elif kind == 'weakdict':
                cur.clear()
                for k, x in content:
                    cur[k] = x
            elif kind == 'iterator':
                import copy
                import warnings
                with warnings.catch_warnings():
                    warnings.simplefilter('ignore')
                    setattr(mod, name, copy.copy(content))
            elif kind == 'scalar':
                if cur is not content and (cur is None or type(cur) in (bool, int, float, str, bytes, tuple, frozenset)):
                    setattr(mod, name, content)
        except Exception:
            pass
    # memoising wrappers (functools.lru_cache / cache) anywhere in the package
    for mod in _state_modules():
        for name, v in list(vars(mod).items()):
            cc = getattr(v, 'cache_clear', None)
            if callable(cc) and getattr(v, '__module__', '').startswith('prettyprinter'):
                try:
                    cc()
                except Exception:
                    pass




def snapshot_generic():
    """Taken when vf.pfbase is imported, i.e. before anything was printed."""
    if 'generic' not in _SNAP:
        _SNAP['generic'] = _generic_snapshot()


def reset_generic():
    snapshot_generic()
    _generic_reset()
