"""Module-level dataclass / attrs classes for C17 (and C03/C19)."""
import dataclasses
import typing

import attr

import prettyprinter

_installed = [False]


def install():
    if not _installed[0]:
        prettyprinter.install_extras(['dataclasses', 'attrs'])
        _installed[0] = True


@dataclasses.dataclass
class Plain:
    a: int
    b: str = 'x'
    c: typing.List[int] = dataclasses.field(default_factory=list)


@dataclasses.dataclass(frozen=True)
class Frozen:
    a: int = 0
    hidden: int = dataclasses.field(default=5, repr=False)
    b: typing.Optional['Frozen'] = None


@dataclasses.dataclass(slots=True)
class Slotted:
    first: int
    second: typing.Tuple[int, ...] = ()


@dataclasses.dataclass
class NoDefaults:
    x: int
    y: int


@dataclasses.dataclass
class WithPseudoFields:
    """ClassVar / InitVar entries are not fields (dataclasses.fields() omits them)."""
    name: str
    created: typing.ClassVar[int] = 0            # bumped below: differs from its default
    registry: typing.ClassVar[dict] = {}
    scale: dataclasses.InitVar[int] = 1
    size: int = 0

    def __post_init__(self, scale):
        type(self).created += 1
        self.size = self.size * scale


@attr.s
class APlain:
    a = attr.ib()
    b = attr.ib(default='x')
    c = attr.ib(factory=list)


@attr.s(frozen=True, slots=True)
class AFrozen:
    a = attr.ib(default=0)
    hidden = attr.ib(default=5, repr=False)
    b = attr.ib(default=None)


@attr.s
class ASelf:
    a = attr.ib(default=1)
    b = attr.ib(default=attr.Factory(lambda self: self.a + 1, takes_self=True))


INSTANCES = [
    'vf.dcls.Plain(1)', "vf.dcls.Plain(1, 'x', [])", "vf.dcls.Plain(2, 'two words', [1, 2, 3])",
    'vf.dcls.Frozen()', 'vf.dcls.Frozen(3, b=vf.dcls.Frozen(4))', 'vf.dcls.Frozen(0, 5, None)',
    'vf.dcls.Slotted(1)', 'vf.dcls.Slotted(1, (2,))', 'vf.dcls.NoDefaults(0, 0)',
    "[vf.dcls.Plain(1), {'k': vf.dcls.Slotted(2, (3, 4))}]",
    'vf.dcls.APlain(1)', "vf.dcls.APlain(1, 'y', [0])", 'vf.dcls.AFrozen()', 'vf.dcls.AFrozen(2, b=vf.dcls.AFrozen(3))',
    'vf.dcls.ASelf()', 'vf.dcls.ASelf(5)', 'vf.dcls.ASelf(5, 7)', 'vf.dcls.ASelf(1, 2)',
    "vf.dcls.Plain(vf.dcls.APlain(vf.dcls.Frozen(1)), 'x')",
    # values that are falsy / empty but differ from the default (factory)
    "vf.dcls.Plain(1, 'x', None)", "vf.dcls.Plain(1, '', ())", "vf.dcls.Plain(0, 'x', 0)",
    "vf.dcls.WithPseudoFields('build')", "[vf.dcls.WithPseudoFields('a', size=3), vf.dcls.WithPseudoFields('b')]",
    'vf.dcls.Slotted(1, [])', "vf.dcls.APlain(1, 'x', None)", "vf.dcls.APlain(None, '', ())", 'vf.dcls.Frozen(0, 5, 0)',
]
